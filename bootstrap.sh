#!/bin/sh
# Build the overlay venv used by every check: /venv's python + /venv's site-packages + /repo
# on the path, plus crosshair-tool and z3-solver from the offline wheelhouse.  Idempotent.
set -e
cd "$(dirname "$0")"
V=.venv
if [ -x "$V/bin/python" ] && "$V/bin/python" -c "import crosshair, z3, spydrnet" >/dev/null 2>&1; then
    exit 0
fi
rm -rf "$V"
/venv/bin/python -m venv "$V"
SP=$("$V/bin/python" -c "import sysconfig; print(sysconfig.get_paths()['purelib'])")
printf "import site; site.addsitedir('/venv/lib/python3.12/site-packages')\n/repo\n" > "$SP/_overlay.pth"
PIP_NO_INDEX=1 "$V/bin/python" -m pip install -q --no-index --find-links /opt/veriftools/wheels crosshair-tool z3-solver >/dev/null
"$V/bin/python" -c "import crosshair, z3, spydrnet; assert spydrnet.__file__.startswith('/repo/')"
