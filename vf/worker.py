"""Worker entry point: one job per process.  stdin: job JSON; stdout: '@@RESULT@@' + JSON list."""
import importlib
import json
import sys
import time
import traceback


def main():
    job = json.loads(sys.stdin.read())
    t0 = time.time()
    try:
        mod = importlib.import_module(job["module"])
        out = getattr(mod, job["func"])(**job.get("args", {}))
    except Exception:
        from vf.core import result, ERROR
        out = [result(job["name"], ERROR, job.get("engine", "?"),
                      detail="exception in worker: " + traceback.format_exc()[-3000:],
                      wall_s=time.time() - t0)]
    sys.stdout.write("\n@@RESULT@@" + json.dumps(out, default=str) + "\n")
    sys.stdout.flush()


if __name__ == "__main__":
    main()
