"""C08 — uniquify (step lemmas; the whole work-list run is outside what z3 decides here)."""

ASSUMPTIONS = [
    "lemma-level claim (E1): (1) uniquify._is_unique(instance) == 'only instance of its definition, or the definition has neither "
    "children nor cables' on an arbitrary Inv-state; (2) uniquify._make_instance_unique(instance) as ONE step on a shape-concrete "
    "library (TOP with two instances of SUB, SUB with a port, a net and a child; links symbolic): the instance gets a private, freshly "
    "named copy placed right after the original, exactly this instance moves between the reference sets, its outer pins keep their "
    "wires and name the copy's pins, the copy has the original's shape (full clone faithfulness is C07), everything else is "
    "untouched, the netlist is well-formed, and the call does not raise on net-local netlists",
    "(3) the whole uniquify(netlist) -- real driver loop, real _is_unique/_make_instance_unique/Definition.clone -- on containment-concrete "
    "netlists whose instance->definition references are symbolic (the solver picks the sharing pattern: shared below the top, shared "
    "with an instance outside the top hierarchy, unshared, leaf cells; fixture 'flat': two instances under the top + one outside, "
    "fixture 'nested' (thorough): one more level): afterwards every reachable hierarchical instance is the only instance of its "
    "definition, the elaborated tree and leaf types are the same, originals/outside untouched, new definitions sit in the original's "
    "library under fresh names, the netlist is well-formed, a second run changes nothing, and no call raises; pins/ports are absent "
    "from these fixtures (their handling is lemma (2)); queries use z3's sat.euf core (see bounds.solver)",
]


def jobs(tier):
    return [dict(name="C08/_is_unique", engine="E1/symheap", module="vf.e1.flatten_jobs", func="uniquify_jobs",
                 timeout=900, args=dict(tier=tier)),
            dict(name="C08/_make_instance_unique", engine="E1/symheap", module="vf.e1.flatten_jobs",
                 func="make_unique_job", timeout=1500, args=dict(tier=tier))] + [
            dict(name="C08/uniquify-driver{%s}" % fx, engine="E1/symheap", module="vf.e1.flatten_jobs",
                 func="uniquify_driver_job", timeout=3000, args=dict(tier=tier, fixture=fx))
            for fx in (("flat",) if tier == "quick" else ("flat", "nested"))]
