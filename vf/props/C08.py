"""C08 — uniquify (step lemmas; the whole work-list run is outside what z3 decides here)."""

ASSUMPTIONS = [
    "lemma-level claim (E1): (1) uniquify._is_unique(instance) == 'only instance of its definition, or the definition has neither "
    "children nor cables' on an arbitrary Inv-state; (2) uniquify._make_instance_unique(instance) as ONE step on a shape-concrete "
    "library (TOP with two instances of SUB, SUB with a port, a net and a child; links symbolic): the instance gets a private, freshly "
    "named copy placed right after the original, exactly this instance moves between the reference sets, its outer pins keep their "
    "wires and name the copy's pins, the copy has the original's shape (full clone faithfulness is C07), everything else is "
    "untouched, the netlist is well-formed, and the call does not raise on net-local netlists",
    "the breadth-first driver loop of uniquify() (each reachable non-leaf instance is visited once and made unique iff not unique) "
    "is NOT executed symbolically; 'elaborated design unchanged' and idempotence are argued from (1)+(2) in DESIGN.md, not decided",
]


def jobs(tier):
    return [dict(name="C08/_is_unique", engine="E1/symheap", module="vf.e1.flatten_jobs", func="uniquify_jobs",
                 timeout=900, args=dict(tier=tier)),
            dict(name="C08/_make_instance_unique", engine="E1/symheap", module="vf.e1.flatten_jobs",
                 func="make_unique_job", timeout=1500, args=dict(tier=tier))]
