"""C01 — ownership and pin-wire links stay consistent under any edit history (inductive step)."""
from vf.props._step import step_jobs

ASSUMPTIONS = [
    "E1: bounded symbolic heap (slot counts, list capacity, bulk-argument length in evidence.bounds); induction: "
    "every public mutator from ANY state satisfying Inv = types & I1 & I2 & I3 re-establishes I1 & I2 "
    "(returned or raised); histories that need more live objects than the universe are outside the claim",
    "iteration order over sets / OrderedDict pin maps is modelled as slot order",
    "listeners: none registered (the naming plugin as listener is decided under C10/C14)",
    "paths on which a list/allocation capacity bound is exceeded are excluded and reported as bound-reached",
]


def jobs(tier):
    return step_jobs("C01", tier, want=("types", "I1", "I2", "perm"))
