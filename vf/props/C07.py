"""C07 — clones are faithful, self-contained and independent of the original."""

ASSUMPTIONS = [
    "E1: X.clone() executed symbolically for every class of root from an arbitrary Inv-state; the correspondence original->copy "
    "is an existential witness (the implementation's memo is offered, every property of it is checked on the post-heap): domain = "
    "exactly the elements inside the root, copies are new objects of the public classes, ordered structure / attributes / data / "
    "connections / outer pins correspond position by position, side connections are cut, the root copy is detached, the source is "
    "unchanged except the documented reference-set bookkeeping (asserted exactly), whole-netlist copies share nothing with the "
    "original, and the whole heap is well-formed afterwards (I1-I3)",
    "independence under later edits follows from 'shares nothing' plus the C01/C14 step obligations (no field of one side is reachable from the other)",
    "roots Wire/Pin/Cable/Port/Instance/Definition: containment fully symbolic; roots Library/Netlist: containment shape concrete "
    "(cube split over the listed shapes), all links (references, connections, top instance, data, flags) symbolic",
    "Instance._is_top_instance of a copy is not compared (not part of the documented clone contract)",
    "outside: user data values that are not atoms (arbitrary deepcopy), shapes beyond those listed, netlists that are not self-contained",
]

SHAPES = {
    "children-of-one-definition": {"Netlist/0/_libraries": [0], "Library/0/_definitions": [0, 1], "Definition/0/_ports": [0],
                                   "Port/0/_pins": [0], "Definition/1/_cables": [0], "Cable/0/_wires": [0],
                                   "Definition/1/_children": [0, 1]},
    "standalone-instance": {"Netlist/0/_libraries": [0], "Library/0/_definitions": [0, 1], "Definition/0/_ports": [0],
                            "Port/0/_pins": [0], "Definition/1/_cables": [0], "Cable/0/_wires": [0],
                            "Definition/1/_children": [0]},
    "mutual-children": {"Netlist/0/_libraries": [0], "Library/0/_definitions": [0, 1], "Definition/0/_ports": [0],
                        "Port/0/_pins": [0], "Definition/0/_cables": [0], "Cable/0/_wires": [0],
                        "Definition/0/_children": [0], "Definition/1/_children": [1]},
}
LIB_SHAPES = {
    "two-libraries": {"Netlist/0/_libraries": [0, 1], "Library/0/_definitions": [0], "Library/1/_definitions": [1],
                      "Definition/0/_ports": [0], "Port/0/_pins": [0], "Definition/1/_cables": [0], "Cable/0/_wires": [0],
                      "Definition/1/_children": [0], "Definition/0/_children": [1]},
    "one-library": SHAPES["children-of-one-definition"],
}


def job(root, tier, part=None, slot=None, shape=None, shape_name=""):
    name = "C07/%s.clone%s%s%s" % (root, "" if slot is None else "{slot%d}" % slot,
                                   "{%s}" % shape_name if shape_name else "",
                                   "" if not part else "(%d/%d)" % (part[0] + 1, part[1]))
    return dict(name=name, engine="E1/symheap", module="vf.e1.jobs", func="clone_job", timeout=2400,
                args=dict(root_cls=root, tier=tier, part=part, self_slot=slot, shape=shape, shape_name=shape_name,
                          timeout_ms=240000 if tier == "quick" else 1200000))


def jobs(tier):
    out = []
    for root in ("Wire", "InnerPin", "OuterPin", "Cable", "Port", "Instance"):
        out.append(job(root, tier))
    for slot in (0, 1):
        for p in range(6):
            out.append(job("Definition", tier, [p, 6], slot))
    for nm, sh in SHAPES.items():
        for p in range(3):
            out.append(job("Netlist", tier, [p, 3], 0, sh, nm))
    for nm, sh in LIB_SHAPES.items():
        for slot in (0, 1):
            for p in range(3):
                out.append(job("Library", tier, [p, 3], slot, sh, nm))
    return out
