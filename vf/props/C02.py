"""C02 — instances mirror their definition (inductive step on I3)."""
from vf.props._step import step_jobs

ASSUMPTIONS = [
    "E1: bounded symbolic heap; induction: every public mutator from ANY state satisfying Inv re-establishes "
    "I3 (reference sets <-> Instance.reference; exactly one outer pin per inner pin of the referenced definition, "
    "naming that instance and inner pin), whether it returned or raised",
    "iteration order over sets / OrderedDict pin maps is modelled as slot order",
    "listeners: none registered",
    "paths on which a list/allocation capacity bound is exceeded are excluded and reported as bound-reached",
]


def jobs(tier):
    return step_jobs("C02", tier, want=("I3",))
