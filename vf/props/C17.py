"""C17 — EDIF export gives every object a legal, case-insensitively unique identifier."""
from vf.props.C13 import e2job

ASSUMPTIONS = [
    "E2: CrossHair/z3 on the real EdififyNames + ComposeEdif._add_rename_property; legality oracle = the EDIF reader's "
    "own EdifNamespace._check_EDIF_identifier",
    "single names: all strings over 'aA_1-[ $' up to length 2 (quick) / 3 (thorough); siblings: first sibling from a table of 12 "
    "adversarial names (case variants, '_', '-', leading digit, x_sdn_N_ forms), second sibling any string over 'aA_1-' up to "
    "length 2, processed in list order as _edifify_netlist does, in both orders, with and without a pre-existing identifier",
    "long names: 250..262 characters (+ _sdn_N_ suffix), first character alphabetic or a digit",
    "outside: non-ASCII letters, scopes of more than two siblings, names longer than the stated bounds",
]


def jobs(tier):
    quick = tier == "quick"
    tmo = 220 if quick else 1500
    out = [e2job("C17", "c17", "h_single_name_becomes_legal", tmo, tier, {"VF_L": 2 if quick else 3}),
           e2job("C17", "c17", "h_long_names_fit", tmo, tier)]
    ks = (0, 3) if quick else range(12)
    for k in ks:
        for fn in ("h_two_siblings_distinct_ignoring_case", "h_existing_identifier_is_respected"):
            out.append(e2job("C17", "c17", fn, tmo, tier, {"VF_K": k, "VF_L": 2}, "[first=%d]" % k))
    return out
