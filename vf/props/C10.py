"""C10 — sibling names stay unique; exact lookup agrees with a scan."""
from vf.props._step import step_jobs

ASSUMPTIONS = [
    "E1: the REAL NamespaceManager / DefaultNamespace / EdifNamespace code is interpreted from source as a registered listener; "
    "only its nested dictionaries are modelled (heap-resident tables addressed by symbolic parent/type/name)",
    "induction: every public mutator from ANY state satisfying Inv & I4 (tables == scan of the current children, per scope and key; "
    ".NS tags uniform; identifiers legal under EDIF) re-establishes I4, under the DEFAULT and under the EDIF policy; uniqueness of "
    "sibling names/identifiers and 'never refused because of a removed element' follow from table exactness",
    "names over the colliding alphabet {'a','A','b','1x'} (case variants, a distinct name, an identifier illegal in EDIF)",
    "outside: mixed-policy states (elements created while the plug-in was deregistered), .NS changes on detached trees, "
    "weak-reference reclamation, clone() (decided under C07)",
]


def jobs(tier):
    return step_jobs("C10", tier, want=("I4",), listeners=("manager:DEFAULT", "manager:EDIF"))
