"""shared job list of the inductive mutator step (C01, C02, C14, C19)"""
from vf.e1 import mutators as M

HEAVY = M.HEAVY
SPLIT = {("Wire", "set:pins"), ("Definition", "add_port"), ("Definition", "create_port"),
         ("Port", "create_pins"), ("Definition", "create_child")}


# shape-concrete extra universes: containment fixed (cube), every link / reference / data value symbolic.
# They reach configurations the fully symbolic profiles are too small for (two ports per definition).
_TWO_PORT = dict(live=dict(Netlist=1, Library=1, Definition=2, Port=4, Cable=1, Wire=1, Instance=1,
                           InnerPin=3, OuterPin=2), K=2, seq=1)


def _two_port(p0, p1, p2, p3):
    return {"Netlist/0/_libraries": [0], "Library/0/_definitions": [0, 1],
            "Definition/0/_ports": [0, 1], "Definition/1/_ports": [2, 3],
            "Definition/0/_cables": [0], "Cable/0/_wires": [0],
            "Port/0/_pins": p0, "Port/1/_pins": p1, "Port/2/_pins": p2, "Port/3/_pins": p3}


SHAPED = [
    ("Instance", "set:reference", "two-ports:second-grows", _TWO_PORT, _two_port([0], [], [1], [2])),
    ("Instance", "set:reference", "two-ports:second-shrinks", _TWO_PORT, _two_port([0], [1], [2], [])),
    ("Instance", "set:reference", "two-ports:equal-widths", _TWO_PORT, _two_port([0], [], [1], [])),
]


def step_jobs(prop, tier, want, listeners=("none",), only_with_refusal=False, validation=True):
    import os
    out = []
    tmo = 180 if tier == "quick" else 900
    seed = int(os.environ.get("VERIF_SEED", "0") or 0)
    if validation:
      out.append(dict(name="%s/translator-validation" % prop, engine="E1/symheap", module="vf.e1.jobs",
                    func="validation_job", timeout=400,
                    args=dict(prop=prop, seed=seed, trials=150 if tier == "quick" else 1500,
                              budget_s=40 if tier == "quick" else 300)))
    for m in M.MUTATORS:
        cls, meth, doms = m[0], m[1], m[2]
        kw = m[3] if len(m) > 3 else {}
        for ls in listeners:
            cubes = [None]
            seqs = [i for i, d in enumerate(doms) if d[0] == "seq"]
            if (cls, meth) in HEAVY and seqs:
                # split the bulk argument: list/set x length (the solver still decides the rest)
                _, p = M.universe(tier, cls, meth)
                base = 2          # arg1 = self, then arguments in order
                cubes = []
                names = _arg_names(doms)
                for n in range(p["seq"] + 1):
                    for s in (True, False):
                        cubes.append({names["seqlen"]: n, names["is_set"]: s})
            nparts = 4 if ((cls, meth) in HEAVY or (cls, meth) in SPLIT) else 1
            for cube in cubes:
                for part in range(nparts):
                    tag = "" if not cube else "{%s}" % ",".join("%s=%s" % kv for kv in sorted(cube.items()))
                    if nparts > 1:
                        tag += "(%d/%d)" % (part + 1, nparts)
                    name = "%s/%s.%s[%s]%s" % (prop, cls, meth, ls, tag)
                    out.append(dict(name=name, engine="E1/symheap", module="vf.e1.jobs", func="step_job",
                                    timeout=tmo * 4,
                                    args=dict(prop=prop, cls=cls, method=meth, doms=doms, kwdoms=kw,
                                              tier=tier, listeners=ls, want=list(want), name_prefix=prop,
                                              cube=cube, timeout_ms=tmo * 1000,
                                              part=[part, nparts] if nparts > 1 else None)))
    for (cls, meth, sname, prof, shape) in SHAPED:
        m = [x for x in M.MUTATORS if (x[0], x[1]) == (cls, meth)][0]
        for ls in listeners:
            out.append(dict(name="%s/%s.%s[%s]{shape=%s}" % (prop, cls, meth, ls, sname), engine="E1/symheap",
                            module="vf.e1.jobs", func="step_job", timeout=tmo * 4,
                            args=dict(prop=prop, cls=cls, method=meth, doms=m[2], kwdoms=m[3] if len(m) > 3 else {},
                                      tier=tier, listeners=ls, want=list(want), name_prefix=prop, cube=None,
                                      timeout_ms=tmo * 1000, shape=shape, shape_name=sname, profile=prof)))
    return out


def _arg_names(doms):
    """names the ArgBuilder will give to the seq length / is_set variables"""
    n = 1  # self
    names = {}
    for d in doms:
        if d[0] == "seq":
            names["seqlen"] = "arg%d_seqlen" % (n + 1)
            n += 1
            # elements
            from vf.e1 import mutators as M_
            names["_elems_from"] = n + 1
            names["is_set"] = None
            names["pending"] = True
            return _finish(names, n)
        elif d[0] == "pos":
            n += 2
        elif d[0] == "none":
            pass
        else:
            n += 1
    return names


def _finish(names, n):
    # the number of element variables depends on the tier's seq length; resolved at run time by
    # looking the variable up by suffix (see jobs.step_job)
    return {"seqlen": names["seqlen"], "is_set": "*seq_is_set"}
