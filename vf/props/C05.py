"""C05 — the EDIF reader builds the design the file describes (kernels)."""
from vf.props import C03

ASSUMPTIONS = C03.ASSUMPTIONS + [
    "C05 shares the naming/tokenizer kernels of C03 (they are the reader's half of that round trip)",
    "E1 step lemma: EdifParser.multibit_add_cable from an existing array cable of width 1..3 (symbolic base index >= 0, symbolic pin "
    "attachment) and an incoming one-wire cable with symbolic bit index in [base-3, base+width+2]: afterwards bit i is at position "
    "i - base', every earlier bit keeps its absolute index and pins, missing bits are present and empty; any arrival order follows by "
    "induction; stubs: separate_name_and_index (decided by the E2 kernels) and definition.get_cables (C10/C13 contract); a second net "
    "for the bus's current lowest bit (a duplicate) is outside",
    "E1 lemma: EdifParser.parse_design over a symbolic netlist of two libraries (2 + 1 cells; identifiers unique per scope, display "
    "names symbolic and independent of the identifiers): the top instance is an instance of the cell carrying the cellRef identifier "
    "in the library carrying the libraryRef identifier; token glue stubbed; a design naming an undeclared cell is outside (malformed file)",
    "kernel (E2, CrossHair): the real parse_property / parse_property_like_element (+ parse_nameDef, parse_rename, parse_typedValue, "
    "append_attribute, the real EdifTokenizer) on up to three string properties of one instance, each absent / plain / renamed, value "
    "symbolic (|v| <= 2 over 'a1_'): every property read carries its own identifier, an original name iff it was renamed, and its "
    "value; one job per structure (quick: the four two-property structures mixing renamed and plain, thorough: all 26)",
]


def jobs(tier):
    out = C03.jobs(tier, "C05")
    for w in (1, 2, 3):
        out.append(dict(name="C05/multibit_add_cable{width=%d}" % w, engine="E1/symheap", module="vf.e1.edif_jobs",
                        func="multibit_job", timeout=1500, args=dict(width=w, tier=tier)))
    out.append(dict(name="C05/parse_design", engine="E1/symheap", module="vf.e1.edif_jobs",
                    func="design_job", timeout=900, args=dict(tier=tier)))
    # (property ...) lists: one CrossHair job per structure r0 + 3*r1 + 9*r2 (0 absent, 1 plain, 2 renamed); quick = the four
    # two-property structures that mix renamed and plain in both orders, thorough = all 26
    from vf.props.C13 import e2job
    for k in ((5, 7, 8, 15) if tier == "quick" else range(1, 27)):
        out.append(e2job("C05", "c05", "h_properties_keep_their_own_names", 600 if tier == "quick" else 1500, tier,
                         {"VF_K": k}, "[structure=%d]" % k))
    return out
