"""C05 — the EDIF reader builds the design the file describes (kernels)."""
from vf.props import C03

ASSUMPTIONS = C03.ASSUMPTIONS + [
    "C05 shares the naming/tokenizer kernels of C03 (they are the reader's half of that round trip)",
]


def jobs(tier):
    return C03.jobs(tier, "C05")
