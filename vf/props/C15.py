"""C15 — rejected input fails cleanly, no process-wide residue."""
from vf.props.C13 import e2job

ASSUMPTIONS = [
    "E1: EdifParser.parse / VerilogParser.parse / EBLIFParser.parse executed symbolically with the construct parser replaced by a "
    "nondeterministic stub (returns, or raises any exception, at the call) and a symbolic naming policy before the call: on EVERY "
    "exit namespace_manager.default equals its value before the call; side condition checked on the source: no other function of "
    "the parser module assigns namespace_manager.default",
    "E1 lemma: EdifParser.parse_libraryRef on a symbolic two-library netlist under the EDIF naming plug-in (token glue stubbed): "
    "the result is the declared library whose identifier equals the reference ignoring case; an undeclared library is rejected",
    "E2: the EDIF tokenizer terminates and loses nothing on every buffer up to the length bound",
    "outside: 'never hands back a half-built structure' for whole files; time-outs on large inputs",
]


def jobs(tier):
    q = tier == "quick"
    out = []
    for w in ("edif", "verilog", "eblif"):
        out.append(dict(name="C15/%s.parse/policy" % w, engine="E1/symheap", module="vf.e1.parser_jobs",
                        func="policy_job", timeout=300, args=dict(which=w, tier=tier)))
    out.append(dict(name="C15/parse_libraryRef", engine="E1/symheap", module="vf.e1.edif_jobs",
                    func="libraryref_job", timeout=900, args=dict(tier=tier)))
    tmo = 200 if q else 1200
    for fn in ("h_tokenizer_terminates_and_loses_nothing",):
        out.append(e2job("C15", "c03", fn, tmo, tier, {"VF_L": 2 if q else 3}))
    return out
