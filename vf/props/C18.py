"""C18 — EBLIF read and round trip (naming kernels)."""
from vf.props.C13 import e2job

ASSUMPTIONS = [
    "E1, writer alone (a necessary condition of write-then-read): on the fixture 'eblif-bus' (a two-bit port on a hierarchical cell, a "
    "two-bit net, two leaf instances) the real eblif writer is run on TWO symbolic connection patterns; if all written texts are equal "
    "(rope equality) then every instance pin sits on the same net bit in both -- two different netlists are never written as the "
    "same text",
    "kernel-level claim (E2, CrossHair/z3): EBLIFParser.get_port_name_and_index reads back name[i] -> (name, i) and a bare "
    "name -> (name, 0) exactly as the composer prints them (find_connected_wire_info / port.name + '[' + str(i) + ']'), for every "
    "name over 'aB9_[]:' up to the length bound and i in 0..120, and raises nothing but ValueError on other bracket text",
    "E1 step lemma (.conn): EBLIFParser.merge_wires(w1, w2) from an arbitrary well-formed model (two cables, three wires, port and "
    "instance pins attached symbolically): the new net carries exactly the union of both pin sets, both old wires are gone, other "
    "nets untouched, model well-formed; python's index-based list iteration under mutation is modelled",
    "E1 sequence lemma: a parser built by its real __init__ runs connect_pin_to_wire(pin, name, i) while reading model A and then "
    "while reading model B (symbolic names over {x, y} for the requests and for the one existing net of each model, i in 0..1): each "
    "pin ends on bit i of a net with that name owned by the model being read, created there if absent; nets never leak between models",
    "kernel (E2): EBLIFComposer.find_and_write_additional_instance_info on an instance whose EBLIF.attr / EBLIF.param tables are present "
    "or absent with 0..2 entries each (concrete keys, symbolic values) and .cname on or off: a reference reader of the line format "
    "recovers exactly the stored tables and name from the written lines",
    "outside: statement-order glue, line continuation, .names covers, whole files",
]


def jobs(tier):
    tmo = 120 if tier == "quick" else 900
    out = [e2job("C18", "c18", fn, tmo, tier) for fn in
           ("h_indexed_name_round_trip", "h_scalar_name_is_index_zero", "h_never_crashes_on_bracket_text")]
    out.append(e2job("C18", "c18", "h_instance_attr_param_cname_lines_all_written", max(tmo, 400), tier))
    out.append(dict(name="C18/merge_wires", engine="E1/symheap", module="vf.e1.eblif_jobs", func="merge_wires_job",
                    timeout=1500, args=dict(tier=tier)))
    out.append(dict(name="C18/connect_two_models", engine="E1/symheap", module="vf.e1.eblif_jobs", func="connect_two_models_job",
                    timeout=1500, args=dict(tier=tier)))
    out.append(dict(name="C18/eblif-writer-injective", engine="E1/symheap", module="vf.e1.compose_jobs", func="writer_injective_job", timeout=3000, args=dict(which="eblif", tier=tier)))
    return out
