"""C18 — EBLIF read and round trip (naming kernels)."""
from vf.props.C13 import e2job

ASSUMPTIONS = [
    "kernel-level claim (E2, CrossHair/z3): EBLIFParser.get_port_name_and_index reads back name[i] -> (name, i) and a bare "
    "name -> (name, 0) exactly as the composer prints them (find_connected_wire_info / port.name + '[' + str(i) + ']'), for every "
    "name over 'aB9_[]:' up to the length bound and i in 0..120, and raises nothing but ValueError on other bracket text",
    "outside: statement-order glue, line continuation, .names covers, whole files",
]


def jobs(tier):
    tmo = 120 if tier == "quick" else 900
    return [e2job("C18", "c18", fn, tmo, tier) for fn in
            ("h_indexed_name_round_trip", "h_scalar_name_is_index_zero", "h_never_crashes_on_bracket_text")]
