"""C09 — flatten (step lemma on the connection-merging kernel)."""

ASSUMPTIONS = [
    "lemma-level claim (E1): flatten._redo_connections(instance, port) for a one-pin port from an ARBITRARY well-formed, net-local "
    "state (a parent definition with the instance and an outer net; the instanced cell with two one-pin ports, an inner net and a "
    "child; all connections symbolic): every other pin of the inner net -- instance pins and pins of OTHER ports alike, which is the "
    "feed-through case -- ends up on the outer net; with one side unconnected the other net is left intact; the boundary pins are "
    "disconnected; nothing else moves; well-formed afterwards; no exception",
    "second lemma: the same call for a TWO-pin port whose bits sit on distinct inner nets and distinct outer nets (any of them "
    "absent): every bit is merged on its own, whatever happened for the bit before it",
    "driver on pin-free hierarchies: the WHOLE flatten() (real work list, real _bring_to_top) on a containment-concrete netlist "
    "without ports (TOP{i0,i1}, A{i2, net}, C{net}, LEAF; instance->definition references symbolic, uniquified by assumption): "
    "afterwards the top holds exactly the leaf occurrences (still instances of their leaf cell), leaf instances are named by their "
    "slash-joined path, the nets of flattened cells sit in the top, what is not below the top is untouched, well-formed, no "
    "exception; the NAMES of moved nets are not decided (twice-built strings, DESIGN 9.5)",
    "naming lemma: flatten._bring_to_top(element, prefix, top) for an instance and for a cable whose NAME and path PREFIX are both "
    "symbolic over string domains in which names start with, contain and repeat the prefix (quick: 6 names x 4 prefixes, thorough "
    "9 x 7): the element is called prefix/name (its own name under the empty prefix) for every pair, sits in the top and no longer "
    "in its cell, an EDIF identifier is refreshed iff present, nothing else changes, well-formed, no exception; names outside the "
    "domains are outside the claim",
    "the work-list driver of flatten() WITH connections is NOT executed symbolically (a whole-run attempt on a "
    "hierarchy-concrete fixture with symbolic connections did not terminate in z3 within 20 min and was dropped); 'leaf-level "
    "connectivity preserved' for whole designs is argued from the lemma in DESIGN.md, not decided",
]


def jobs(tier):
    return [dict(name="C09/_redo_connections", engine="E1/symheap", module="vf.e1.flatten_jobs",
                 func="redo_connections_job", timeout=1500, args=dict(tier=tier)),
            dict(name="C09/_redo_connections{two-pin-port}", engine="E1/symheap", module="vf.e1.flatten_jobs",
                 func="redo_connections_bus_job", timeout=1500, args=dict(tier=tier)),
            dict(name="C09/_bring_to_top", engine="E1/symheap", module="vf.e1.flatten_jobs",
                 func="bring_to_top_job", timeout=1500, args=dict(tier=tier)),
            dict(name="C09/flatten-driver{pin-free}", engine="E1/symheap", module="vf.e1.flatten_jobs",
                 func="flatten_driver_job", timeout=3000, args=dict(tier=tier))]
