"""C09 — flatten (step lemma on the connection-merging kernel)."""

ASSUMPTIONS = [
    "lemma-level claim (E1): flatten._redo_connections(instance, port) for a one-pin port from an ARBITRARY well-formed, net-local "
    "state (a parent definition with the instance and an outer net; the instanced cell with two one-pin ports, an inner net and a "
    "child; all connections symbolic): every other pin of the inner net -- instance pins and pins of OTHER ports alike, which is the "
    "feed-through case -- ends up on the outer net; with one side unconnected the other net is left intact; the boundary pins are "
    "disconnected; nothing else moves; well-formed afterwards; no exception",
    "second lemma: the same call for a TWO-pin port whose bits sit on distinct inner nets and distinct outer nets (any of them "
    "absent): every bit is merged on its own, whatever happened for the bit before it",
    "driver on pin-free hierarchies: the WHOLE flatten() (real work list, real _bring_to_top) on a containment-concrete netlist "
    "without ports (TOP{i0,i1}, A{i2, net}, C{net}, LEAF; instance->definition references symbolic, uniquified by assumption): "
    "afterwards the top holds exactly the leaf occurrences (still instances of their leaf cell), leaf instances are named by their "
    "slash-joined path, the nets of flattened cells sit in the top, what is not below the top is untouched, well-formed, no "
    "exception; the NAMES of moved nets are not decided (twice-built strings, DESIGN 9.5)",
    "the work-list driver of flatten() WITH connections, _bring_to_top and naming are NOT executed symbolically (a whole-run attempt on a "
    "hierarchy-concrete fixture with symbolic connections did not terminate in z3 within 20 min and was dropped); 'leaf-level "
    "connectivity preserved' for whole designs is argued from the lemma in DESIGN.md, not decided",
]


def jobs(tier):
    return [dict(name="C09/_redo_connections", engine="E1/symheap", module="vf.e1.flatten_jobs",
                 func="redo_connections_job", timeout=1500, args=dict(tier=tier)),
            dict(name="C09/_redo_connections{two-pin-port}", engine="E1/symheap", module="vf.e1.flatten_jobs",
                 func="redo_connections_bus_job", timeout=1500, args=dict(tier=tier)),
            dict(name="C09/flatten-driver{pin-free}", engine="E1/symheap", module="vf.e1.flatten_jobs",
                 func="flatten_driver_job", timeout=3000, args=dict(tier=tier))]
