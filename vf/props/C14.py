"""C14 — a refused edit changes nothing (frame condition on every exceptional exit)."""
from vf.props._step import step_jobs

ASSUMPTIONS = [
    "E1: bounded symbolic heap; for every public mutator from ANY Inv-state and ANY arguments: if the call raises, "
    "every field of every pre-existing object (lists with order, reference sets, pin maps, data, bundle flags) is "
    "unchanged and mentions no object allocated during the call",
    "refusal sources: asserts and the KeyError/ValueError/AttributeError/TypeError/IndexError of the modelled Python semantics; "
    "listener configurations: none, and the real naming plug-in (interpreted from source) under the DEFAULT and the EDIF policy, "
    "where the frame additionally covers the plug-in's name tables (same answers to name lookups)",
    "paths on which a list/allocation capacity bound is exceeded are excluded and reported as bound-reached",
]


def jobs(tier):
    return step_jobs("C14", tier, want=("frame",)) + \
        step_jobs("C14", tier, want=("frame",), listeners=("manager:DEFAULT", "manager:EDIF"),
                  validation=False)
