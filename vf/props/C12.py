"""C12 — cross-hierarchy tracing returns exactly the electrically connected net."""

ASSUMPTIONS = [
    "E1 on hierarchy-concrete fixtures (containment, instance references, top instance, pin maps fixed per fixture = cube split over "
    "the listed designs); the solver decides every connection pattern: which port pins and instance pins sit on which wire, in "
    "which order (all well-formed, net-local assignments), plus names",
    "hierarchical references are atoms over the table of all paths of the elaborated design; HRef.from_parent_and_item is the table "
    "lookup (pairs that are no path map to one 'invalid' sentinel whose is_valid is False); the flyweight identity is abstracted "
    "to path equality",
    "claim: for every hierarchical wire of the fixture as starting point, the real _get_hwires(start, selection=ALL) returns exactly "
    "the wires in the connected component of the start under an adjacency relation stated independently from the pin->wire fields "
    "(bounded transitive closure), without duplicates and without raising; hence every member of a net yields the same answer",
    "the same claim for get_hcables(start, selection=ALL) (hierarchical cables of the connected net; every cable of the fixtures has "
    "one wire); get_hports is outside this check",
    "narrower selections: get_hwires(hierarchical pin, INSIDE / OUTSIDE) returns exactly the wire attached on that side of the pin "
    "(nothing when that side is open), for every hierarchical pin; get_hpins(hierarchical wire) returns exactly the port pins of "
    "the wire's own instance and the sub-instance pins attached to it, each once",
    "fixtures: 'shared-sub' (a non-leaf definition instanced twice on one net, three levels), 'wire-only' (a cell with two ports "
    "and a net but no children, one level below the top, between two nets of its parent) and, in the thorough tier, 'feed-through' (one inner net on two ports of "
    "a cell that also has a child); deeper hierarchies, buses wider than one bit and the narrower selections are outside this check",
]

FIX = {"shared-sub": 3, "wire-only": 4, "feed-through": 3}


def jobs(tier):
    out = []
    for fx, n in FIX.items():
        if tier == "quick" and fx == "feed-through":
            continue
        for s in range(n):
            for goal in ("exactly-the-connected-net", "no-duplicates", "never-raises"):
                out.append(dict(name="C12/%s/start%d/%s" % (fx, s, goal), engine="E1/symheap",
                                module="vf.e1.hier_jobs", func="trace_job", timeout=3000,
                                args=dict(fixture=fx, tier=tier, only_start=s, only_goal=goal,
                                          timeout_ms=400000 if tier == "quick" else 1500000)))
    # the same closure asked for hierarchical CABLES (get_hcables): exactness from every start of the quick fixtures
    for fx, n in FIX.items():
        if fx == "feed-through" and tier == "quick":
            continue
        for s in range(n):
            out.append(dict(name="C12/hcables/%s/start%d" % (fx, s), engine="E1/symheap", module="vf.e1.hier_jobs",
                            func="trace_job", timeout=3000,
                            args=dict(fixture=fx, tier=tier, only_start=s, only_goal="exactly-the-connected-net", what="hcables",
                                      timeout_ms=400000 if tier == "quick" else 1500000)))
    for fx in FIX:
        if fx == "feed-through" and tier == "quick":
            continue
        out.append(dict(name="C12/hpins-of-a-wire/%s" % fx, engine="E1/symheap", module="vf.e1.hier_jobs", func="hpins_job",
                        timeout=3000, args=dict(fixture=fx, tier=tier)))
        out.append(dict(name="C12/inside-outside-of-a-pin/%s" % fx, engine="E1/symheap", module="vf.e1.hier_jobs",
                        func="selection_job", timeout=3000, args=dict(fixture=fx, tier=tier)))
    return out
