"""C11 — hierarchical references enumerate each occurrence exactly once."""

ASSUMPTIONS = [
    "E1 on hierarchy-concrete fixtures (as C12): HRef.get_all_hrefs_of_instances(S) is executed for an ARBITRARY subset S of the "
    "fixture's instances (symbolic membership flags, i.e. all 2^n subsets at once, incl. members that are ancestors of other members): "
    "the result contains exactly the instance paths of the elaborated design ending in a member of S, each once, nothing else, and "
    "the call does not raise",
    "hierarchical references are atoms over the table of all paths; flyweight identity ('same object') and hash equality are "
    "abstracted to path equality and are NOT claimed; is_valid/is_unique/name after edits are not claimed either",
    "name maps: _update_hwire_namemap / _update_hcable_namemap(top, recursive, found, namemap) on the fixtures 'wire-only' (a cell "
    "with nets but no children, one level down), 'shared-sub' and 'feed-through', recursive on and off (cube split; the walk is then "
    "concrete), with symbolic naming (each cable: name present or not, array flag, base index 0..3): exactly one entry per cable / "
    "wire occurrence below the start, none twice, named by instance path + cable name + bus index (one-bit arrays included); the "
    "dictionary argument is a recording stand-in interpreted like the code under test",
    "outside: get_hinstances/get_hports/get_hpins name filters, deeper hierarchies",
]


def namemap_jobs(prop):
    return [dict(name="%s/namemap/%s/%s/recursive=%s" % (prop, which, fx, rec), engine="E1/symheap", module="vf.e1.hier_jobs",
                 func="namemap_job", timeout=900, args=dict(fixture=fx, which=which, tier="quick", recursive=rec, prop=prop))
            for fx in ("wire-only", "shared-sub", "feed-through") for which in ("hwire", "hcable") for rec in (True, False)]


def jobs(tier):
    fxs = ("shared-sub",) if tier == "quick" else ("shared-sub", "feed-through")
    return namemap_jobs("C11") + [dict(name="C11/occurrences/%s" % fx, engine="E1/symheap", module="vf.e1.hier_jobs",
                 func="occurrences_job", timeout=3000,
                 args=dict(fixture=fx, tier=tier, timeout_ms=400000 if tier == "quick" else 1500000)) for fx in fxs]
