"""C11 — hierarchical references enumerate each occurrence exactly once."""

ASSUMPTIONS = [
    "E1 on hierarchy-concrete fixtures (as C12): HRef.get_all_hrefs_of_instances(S) is executed for an ARBITRARY subset S of the "
    "fixture's instances (symbolic membership flags, i.e. all 2^n subsets at once, incl. members that are ancestors of other members): "
    "the result contains exactly the instance paths of the elaborated design ending in a member of S, each once, nothing else, and "
    "the call does not raise",
    "hierarchical references are atoms over the table of all paths; flyweight identity ('same object') and hash equality are "
    "abstracted to path equality and are NOT claimed; is_valid/is_unique/name after edits are not claimed either",
    "outside: get_hinstances/get_hports/get_hpins/get_hcables name filters and the recursive flag, deeper hierarchies",
]


def jobs(tier):
    fxs = ("shared-sub",) if tier == "quick" else ("shared-sub", "feed-through")
    return [dict(name="C11/occurrences/%s" % fx, engine="E1/symheap", module="vf.e1.hier_jobs",
                 func="occurrences_job", timeout=3000,
                 args=dict(fixture=fx, tier=tier, timeout_ms=400000 if tier == "quick" else 1500000)) for fx in fxs]
