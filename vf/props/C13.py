"""C13 — query filters mean what they say."""
ASSUMPTIONS = [
    "E2: CrossHair's symbolic str/int models and z3; harness bounds as listed per obligation",
    "values: every string over 'aAbB*' up to length 3 (quick) / 4 (thorough); patterns: a fixed table of 13 "
    "shell patterns and 8 regular expressions, each with a hand-written language as oracle; "
    "'[' classes and arbitrary user regexes are outside the claim",
]


def e2job(prop, file, fn, tmo, tier, env=None, tag=""):
    name = "%s/%s/%s%s" % (prop, file, fn[2:], tag)
    return dict(name=name, engine="E2/crosshair", module="vf.e2.runner", func="run_harness",
                timeout=tmo + 180,
                args=dict(prop=prop, name=name, file=file, fn=fn, timeout=tmo, tier=tier, env=env or {}))


def jobs(tier):
    tmo = 150 if tier == "quick" else 900
    out = []
    # the case-folding paths call str.lower() on the symbolic value (many more paths): shorter bound
    Lfold = 2 if tier == "quick" else 3
    for k in range(13):
        for fn in ("h_glob_case_sensitive", "h_absolute_means_equality"):
            out.append(e2job("C13", "c13", fn, tmo, tier, {"VF_K": k}, "[k=%d]" % k))
        out.append(e2job("C13", "c13", "h_glob_ignore_case", tmo, tier, {"VF_K": k, "VF_L": Lfold},
                         "[k=%d,len<=%d]" % (k, Lfold)))
    for k in range(8):
        out.append(e2job("C13", "c13", "h_regex_fullmatch", tmo, tier, {"VF_K": k}, "[k=%d]" % k))
        out.append(e2job("C13", "c13", "h_answers_do_not_depend_on_history", tmo, tier,
                         {"VF_K": k, "VF_L": Lfold}, "[k=%d,len<=%d]" % (k, Lfold)))
    out.append(e2job("C13", "c13", "h_none_value_is_empty", tmo, tier))
    for k in range(7):
        for case in (0, 1):
            # (case folding calls str.lower() on the symbolic value: several times the paths)
            out.append(e2job("C13", "c13", "h_brackets_are_literal", tmo if case else max(tmo, 500), tier, {"VF_K": k, "VF_CASE": case},
                             "[k=%d,is_case=%d]" % (k, case)))
    from vf.props.C11 import namemap_jobs
    out += namemap_jobs("C13")
    return out
