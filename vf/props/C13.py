"""C13 — query filters mean what they say."""
ASSUMPTIONS = [
    "E2: CrossHair's symbolic str/int models and z3; harness bounds as listed per obligation",
    "values: every string over 'aAbB*' up to length 3 (quick) / 4 (thorough); patterns: a fixed table of 13 "
    "shell patterns and 8 regular expressions, each with a hand-written language as oracle; "
    "brackets: only * and ? are wildcards -- 7 bracket patterns against the 108 strings [aA]?\\[?[bB]?\\]?[aA]?, both case modes",
    "E1 (name maps, shared with C11): _update_hwire_namemap/_update_hcable_namemap on three hierarchy fixtures",
    "E1 (flat queries): _get_instances/_get_cables/_get_ports/_get_definitions(parent, (p1, p2), key=.NAME, is_case symbolic, "
    "is_re=False) from an ARBITRARY well-formed state of the quick universe with distinct sibling names (names over a/A/ab/b or "
    "absent, patterns over a, A, a*, *, ?, *b, zz): the result equals the unfiltered result (default pattern) restricted to "
    "the elements whose value -- '' when the key is absent -- matches p1 or p2 under an independent matcher; the unfiltered result "
    "is exactly the (named) children of the parent; no element twice; no fast lookup registered (the fallback scan is exercised; "
    "the registered lookup is C10's subject)",
    "outside: arbitrary user regexes inside the flat queries, recursive/selection variants of the flat queries, user keys",
]


def e2job(prop, file, fn, tmo, tier, env=None, tag=""):
    name = "%s/%s/%s%s" % (prop, file, fn[2:], tag)
    return dict(name=name, engine="E2/crosshair", module="vf.e2.runner", func="run_harness",
                timeout=tmo + 180,
                args=dict(prop=prop, name=name, file=file, fn=fn, timeout=tmo, tier=tier, env=env or {}))


def jobs(tier):
    tmo = 150 if tier == "quick" else 900
    out = []
    # the case-folding paths call str.lower() on the symbolic value (many more paths): shorter bound
    Lfold = 2 if tier == "quick" else 3
    for k in range(13):
        for fn in ("h_glob_case_sensitive", "h_absolute_means_equality"):
            out.append(e2job("C13", "c13", fn, tmo, tier, {"VF_K": k}, "[k=%d]" % k))
        out.append(e2job("C13", "c13", "h_glob_ignore_case", tmo, tier, {"VF_K": k, "VF_L": Lfold},
                         "[k=%d,len<=%d]" % (k, Lfold)))
    for k in range(8):
        out.append(e2job("C13", "c13", "h_regex_fullmatch", tmo, tier, {"VF_K": k}, "[k=%d]" % k))
        out.append(e2job("C13", "c13", "h_answers_do_not_depend_on_history", tmo, tier,
                         {"VF_K": k, "VF_L": Lfold}, "[k=%d,len<=%d]" % (k, Lfold)))
    out.append(e2job("C13", "c13", "h_none_value_is_empty", tmo, tier))
    for k in range(7):
        for case in (0, 1):
            # (case folding calls str.lower() on the symbolic value: several times the paths)
            out.append(e2job("C13", "c13", "h_brackets_are_literal", tmo if case else max(tmo, 500), tier, {"VF_K": k, "VF_CASE": case},
                             "[k=%d,is_case=%d]" % (k, case)))
    from vf.props.C11 import namemap_jobs
    out += namemap_jobs("C13")
    for q in ("instances", "cables", "ports", "definitions"):
        out.append(dict(name="C13/flat-query/%s" % q, engine="E1/symheap", module="vf.e1.query_jobs", func="flat_query_job",
                        timeout=1500, args=dict(query=q, tier=tier)))
    return out
