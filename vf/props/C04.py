"""C04 — Verilog write-then-read (writer kernel lemma)."""

ASSUMPTIONS = [
    "lemma-level claim (E1): Composer._write_concatenation(wires) for every list of up to three entries drawn from a 3-bit bus "
    "(base index 0..4), a scalar net and None (unconnected): the part-selects it emits (recorded through a stub of "
    "_write_bundle_with_indicies), read the way the Verilog reader reads a range (bits max..min, most significant first, whatever the "
    "order of the bounds -- that reading is itself decided for the real get_wires_from_cable under C06), denote exactly the given "
    "wires in the given order; the call does not raise",
    "outside: every other part of the writer (module headers, port aliases, assigns, parameters, escaped names) and the whole-file "
    "round trip; counterexamples are replayed by writing a real netlist with sdn.compose and re-reading it with sdn.parse",
]


def jobs(tier):
    return [dict(name="C04/_write_concatenation", engine="E1/symheap", module="vf.e1.verilog_jobs",
                 func="concatenation_job", timeout=1500, args=dict(tier=tier))]
