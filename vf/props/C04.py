"""C04 — Verilog write-then-read (writer kernel lemma)."""

ASSUMPTIONS = [
    "E1, writer alone (a necessary condition of write-then-read): on the fixture 'eblif-bus' (a two-bit port on a hierarchical cell, a "
    "two-bit net, two leaf instances) the real verilog writer is run on TWO symbolic connection patterns; if all written texts are equal "
    "(rope equality) then every instance pin and port pin sits on the same net bit in both -- two different netlists are never written as the "
    "same text; port bits of a module are assumed joined inside the module (what the Verilog reader produces)",
    "lemma-level claim (E1): Composer._write_concatenation(wires) for every list of up to three entries drawn from a 3-bit bus "
    "(base index 0..4), a scalar net and None (unconnected): the part-selects it emits (recorded through a stub of "
    "_write_bundle_with_indicies), read the way the Verilog reader reads a range (bits max..min, most significant first, whatever the "
    "order of the bounds -- that reading is itself decided for the real get_wires_from_cable under C06), denote exactly the given "
    "wires in the given order; the call does not raise",
    "lemma-level claim (E2, CrossHair/z3): (* *) attribute lists of up to three entries (key only / key = value, every order; values "
    "from a table of reader-producible token concatenations or any string over 'a1_' up to length 2), rendered by an independent "
    "three-line writer, read by the real TokenFactory + parse_star_property, written by the real _write_star_constraints and read "
    "again: accepted, same keys in the same order, same values; stream I/O replaced by a recording sink / direct character feed",
    "kernel (E2): Composer._write_assignment on an assignment cell of width 1..3 joined to any aligned slice of two nets of width "
    "1..3 whose base indices are symbolic in 0..40: the statement written is one of the Verilog spellings of exactly the joined bits",
    "outside: every other part of the writer (module headers, port aliases, parameters, escaped names) and the whole-file "
    "round trip; counterexamples are replayed by writing a real netlist with sdn.compose and re-reading it with sdn.parse",
]


def jobs(tier):
    from vf.props.C13 import e2job
    tmo = 200 if tier == "quick" else 900
    star = [e2job("C04", "c04", "h_attribute_list_roundtrip", tmo, tier,
                  {"VF_K": k, "VF_L": 2 if tier == "quick" else 3}, "[structure=%d]" % k) for k in range(1, 27)]
    star.append(e2job("C04", "c04", "h_assign_statement_names_the_connected_bits", max(tmo, 400), tier))
    return star + [dict(name="C04/verilog-writer-injective", engine="E1/symheap", module="vf.e1.compose_jobs", func="writer_injective_job", timeout=3000, args=dict(which="verilog", tier=tier))] + [dict(name="C04/_write_concatenation", engine="E1/symheap", module="vf.e1.verilog_jobs",
                 func="concatenation_job", timeout=1500, args=dict(tier=tier))]
