"""C19 — listeners are told of every structural change before it happens."""
from vf.props._step import step_jobs

ASSUMPTIONS = [
    "E1: every public mutator from ANY Inv-state with one side-effect-free recording listener on all 27 events; "
    "the ordered guarded event list of the call is folded by a reference mirror written independently of the code",
    "mirror: mirror(pre-state, events) == real post-state on containment (as sets; positions are not announced), "
    "pin-wire connections (outer pins keyed by (instance, inner pin)), references, top instance and data, on normal return",
    "before: containment/connect announcements are emitted while the change is not visible yet; disconnect "
    "announcements may repeat (the bulk API announces proxy and stored pin) and are excluded from this clause",
    "phantom: a call that raises (no listener veto in this configuration) has emitted no structural announcement",
    "outside: re-keying of outer-pin connections on Instance.reference re-pointing is not announced; that clause is "
    "skipped for Instance.reference; clone() bypasses the editing API by design",
]


def jobs(tier):
    return step_jobs("C19", tier, want=("mirror", "before", "phantom"), listeners=("recorder",))
