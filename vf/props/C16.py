"""C16 — writing does not change the netlist and is repeatable (writers on a fixture, text as ropes)."""

ASSUMPTIONS = [
    "E1 on a hierarchy-concrete fixture ('eblif': library work {TOP, SUB}, library hdi_primitives {LEAF}; TOP holds an instance of "
    "SUB and one of LEAF, SUB holds one of LEAF; names concrete) with symbolic net-local connections and symbolic writer options: "
    "the real writer is run TWICE by two writer objects built by the real __init__; file objects are replaced by a recorder "
    "(prepare_file/_open_file return a stand-in, every write is recorded with its guard)",
    "claims per writer: (1) after the first and after the second write every field and every data entry of every object of the "
    "netlist is what it was (frame over all classes); (2) both runs issue the same sequence of writes with equal texts; (3) nothing "
    "raises.  Text built from symbolic parts is kept as a rope (concatenation / guarded-alternative DAG over strings, label atoms and "
    "small integers) and compared structurally: equal shape and equal leaves is a sufficient condition for equal text",
    "three writers: EBLIFComposer.run, verilog Composer.run (options write_blackbox / defparam / skip_constraints symbolic) and "
    "ComposeEdif.run; for the FIRST EDIF write the documented side effects are allowed and nothing else: libraries and cells "
    "may be permuted (same members), EDIF.identifier / EDIF.rename entries may appear; the clock is a fixed stand-in (the timeStamp "
    "line is excluded by the property)",
    "EBLIF: the EBLIF.type tag of the three instances is fixed per job (cube split over the listed taggings, absent included)",
    "outside: the bytes reaching the file system (open/close, flushing, 'the file is complete and closed'), the timestamp line, "
    "other hierarchy shapes, .names/.latch instances, EDIF.properties / VERILOG.* data entries (keys outside the data-key universe "
    "read as absent), definition_list/reverse options",
]

TAGS = [(None, None, None), ("EBLIF.subckt", "EBLIF.gate", "EBLIF.subckt"), ("EBLIF.subckt", None, "EBLIF.other")]


def jobs(tier):
    out = []
    tags_list = list(TAGS)
    if tier == "thorough":
        import itertools
        opts = (None, "EBLIF.subckt", "EBLIF.gate", "EBLIF.other")
        tags_list = [t for t in itertools.product(opts, repeat=3)]
    for tags in tags_list:
        out.append(dict(name="C16/eblif{%s}" % ",".join("-" if t is None else t.split(".")[1] for t in tags),
                        engine="E1/symheap", module="vf.e1.compose_jobs", func="eblif_compose_job", timeout=3000,
                        args=dict(tier=tier, tags=list(tags))))
    for which in ("verilog", "edif"):
        out.append(dict(name="C16/%s" % which, engine="E1/symheap", module="vf.e1.compose_jobs", func="eblif_compose_job",
                        timeout=3000, args=dict(tier=tier, which=which)))
    return out
