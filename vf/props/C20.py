"""C20 — the comparer accepts faithful copies and rejects structural differences."""

ASSUMPTIONS = [
    "E1: Comparer.compare and everything it calls (get_libraries/definitions/ports/cables/instances, lookup fallback scan, the "
    "pattern matcher lifted by tabulation) executed symbolically on two netlists A, B in one universe; containment shape concrete "
    "(listed per obligation), every link (references, pin-wire connections incl. order, top instance), names (atoms a/b/c), port "
    "directions and bundle flags symbolic",
    "accept: B constrained position-wise identical to A => no exception; reject: identical except one planted difference "
    "(port direction, element name, instance reference, a net touching another pin/bit, port width, cable width, instance count) => "
    "an exception is raised",
    "preconditions: both netlists self-contained, every first-class element named, sibling names distinct per scope, nets local "
    "to their definition (a wire joins only pins of its definition's ports and children)",
    "shape 'two-children': the top holds two instances of the two-pin cell (references fixed by the job), so that the planted "
    "net difference includes 'same pin of the other instance'",
    "outside: EDIF.properties / EDIF.original_identifier values (keys outside the data-key universe), unnamed elements, larger shapes; "
    "write-then-read copies (their equality is C03/C04)",
]

TWO_LIBS_CUBE = {"Instance/0/_reference": ["Definition", 0], "Library/0/.NAME": "a", "Library/1/.NAME": "b",
                 "Library/2/.NAME": "a", "Library/3/.NAME": "b", "Definition/0/.NAME": "a", "Definition/1/.NAME": "a",
                 "Definition/2/.NAME": "b", "Definition/3/.NAME": "a", "Definition/4/.NAME": "a", "Definition/5/.NAME": "b"}


def job(scenario, tier, cube=None):
    return dict(name="C20/" + scenario, engine="E1/symheap", module="vf.e1.compare_jobs", func="compare_job",
                timeout=3000, args=dict(scenario=scenario, tier=tier, cube=cube,
                                        timeout_ms=400000 if tier == "quick" else 1500000))


def jobs(tier):
    sc = ["faithful-copy", "port-direction", "port-width", "net-touches-another-bit", "instance-reference",
          "element-name", "cable-width", "instance-count"]
    out = [job(s, tier) for s in sc]
    out.append(job("instance-reference@two-libs", tier, TWO_LIBS_CUBE))
    out.append(job("faithful-copy@two-libs", tier, TWO_LIBS_CUBE))
    # two instances of the two-pin cell under the top: a net on the right pin of the WRONG instance
    two_children = {"Instance/0/_reference": ["Definition", 0], "Instance/1/_reference": ["Definition", 0]}
    out.append(job("net-touches-another-bit@two-children", tier, two_children))
    out.append(job("faithful-copy@two-children", tier, two_children))
    return out
