"""C06 — the Verilog reader (kernel lemmas)."""

ASSUMPTIONS = [
    "lemma-level claim (E1): (1) VerilogParser.get_wires_from_cable(cable, left, right) on a cable of width 1..3 with symbolic base "
    "index and symbolic/absent bounds returns exactly the selected bits, most significant first; (2) "
    "parse_variable_instantiation for the constant 1'b0 (tokenizer stubbed), called while connecting module A and then module B, "
    "returns a net owned by A and then a net owned by B (constants never leak between modules), on two symbolic definitions whose "
    "existing nets may or may not already be the constant net",
    "(3) parse_cable_concatenation for { P1 , P2 } (tokens and parse_variable_instantiation stubbed: each piece an arbitrary "
    "identifier / bit-select / part-select of either of two 2-bit cables with symbolic base index): the wires returned are P1's bits "
    "most significant first, then P2's bits most significant first (list.sort with a key is encoded as a stable rank computation)",
    "(4) connect_implicitly_mapped_ports (positional map) and parse_port_map_single (named map; create_or_update_port_on_instance "
    "stubbed to return the instance's pins of the port) for an expression of 1 or 2 bits on a two-bit port: bit k of the expression, "
    "counted from its least significant end, joins port bit k; port bits above the expression stay open",
    "(5) kernel (E2, CrossHair): the real parse_module_body (+ parse_star_property, parse_cable_declaration; tokens from the real "
    "TokenFactory fed character by character) on up to three (* *) groups in front of one wire declaration followed by a bare reg: "
    "three keys, each absent or in any group, bare or with a symbolic value (|v| <= 2 over 'a1_'); the wire gets the union of all "
    "groups in order, the following item none.  One job per group structure (quick: 11 of the 64 structures, thorough: all)",
    "outside: module-level glue, header/body port merging, late growth of cables (create_or_update_cable), parameters, attributes on ports and instances, "
    "black-box election, whole files",
]


# structure cubes (g0, g1, g2): which attribute group each key sits in (0 = absent); quick = 11 cubes with one, two and three
# groups in every order, thorough = all 64
_Q = [(1, 2, 0), (2, 1, 0), (1, 0, 2), (0, 1, 2), (1, 3, 0), (0, 2, 3), (1, 0, 0), (0, 0, 0), (1, 2, 3), (3, 2, 1), (1, 2, 1)]


def jobs(tier):
    from vf.props.C13 import e2job
    return [dict(name="C06/reader-kernels", engine="E1/symheap", module="vf.e1.verilog_jobs",
                 func="reader_kernels_job", timeout=1500, args=dict(tier=tier)),
            dict(name="C06/concat-read", engine="E1/symheap", module="vf.e1.verilog_jobs",
                 func="concat_read_job", timeout=1500, args=dict(tier=tier))] + [
            dict(name="C06/port-map/%s" % k, engine="E1/symheap", module="vf.e1.verilog_jobs", func="port_map_job",
                 timeout=1500, args=dict(tier=tier, kind=k)) for k in ("positional", "named")] + [
            e2job("C06", "c06", "h_attribute_groups_reach_the_item_they_precede", 600 if tier == "quick" else 1500, tier,
                  {"VF_K": k}, "[groups=%d]" % k) for k in ([a + 4 * b + 16 * c for a, b, c in _Q] if tier == "quick" else range(64))]
