"""C03 — EDIF write-then-read (decided through its kernels; the printing glue is outside the claim)."""
from vf.props.C13 import e2job

ASSUMPTIONS = [
    "E1, writer alone (a necessary condition of write-then-read): on the fixture 'eblif-bus' (a two-bit port on a hierarchical cell, a "
    "two-bit net, two leaf instances) the real edif writer is run on TWO symbolic connection patterns; if all written texts are equal "
    "(rope equality) then every instance pin and port pin sits on the same net bit in both -- two different netlists are never written as the "
    "same text",
    "E1 lemma on the writer: ComposeEdif._output_name_of_cable_wire_ (file object stubbed as a write recorder) emits the plain name "
    "only for a one-wire non-array cable and otherwise exactly rename <id>_<i>_ \"<name>[<i>]\" with i = position + base index "
    "(width 1..2, base index 0..7, symbolic array flag); with the naming kernels this keeps width, array-ness and base index",
    "E1 lemma on the writer: ComposeEdif._output_port_ref_ / _output_inner_pin_ write `member <port> x` exactly for array ports, with "
    "x the position of the pin in its port (what the reader's parse_member indexes with), for ports of 1 and 3 pins whose pins are "
    "joined to either of two wires or to nothing in every combination (symbolic links under the IR invariant)",
    "kernel-level claim: the whole-file statement is decided through the mechanisms its anchors name, each on the real code; "
    "the recursive-descent/printing glue that merely orders constructs is outside the claim",
    "E2 (CrossHair/z3): what ComposeEdif._output_name_of_cable_wire_ writes for bit i (name[i] and id_i_) is split back by "
    "EdifParser.separate_name_and_index into (i, name)/(i, id) for every name over 'aB9_[] ' / every legal identifier up to the "
    "length bound and i in 0..120; names not ending in [digits] are never taken for a bus bit; the tokenizer loses nothing",
]


def jobs(tier, prop="C03"):
    q = tier == "quick"
    tmo = 200 if q else 1200
    out = []
    for fn in ("h_bit_name_round_trip", "h_bit_identifier_round_trip", "h_scalar_name_not_taken_for_a_bit"):
        out.append(e2job(prop, "c03", fn, tmo, tier))
    for fn in ("h_tokenizer_terminates_and_loses_nothing", "h_parentheses_are_separate_tokens"):
        out.append(e2job(prop, "c03", fn, tmo, tier, {"VF_L": 2 if q else 3}))
    if prop == "C03":
        for w in (1, 2):
            out.append(dict(name="C03/cable_wire_name{width=%d}" % w, engine="E1/symheap", module="vf.e1.edif_jobs",
                            func="cable_wire_name_job", timeout=900, args=dict(width=w, tier=tier)))
        out.append(dict(name="C03/edif-writer-injective", engine="E1/symheap", module="vf.e1.compose_jobs", func="writer_injective_job", timeout=3000, args=dict(which="edif", tier=tier)))
        for w in (1, 3):
            out.append(dict(name="C03/port_ref{width=%d}" % w, engine="E1/symheap", module="vf.e1.edif_jobs",
                            func="port_ref_job", timeout=900, args=dict(width=w, tier=tier)))
    return out
