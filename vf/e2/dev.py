"""dev helper: python -m vf.e2.dev <file> <fn> [timeout] [tier]"""
import sys, json
from vf.e2.runner import run_harness
f, fn = sys.argv[1], sys.argv[2]
tmo = float(sys.argv[3]) if len(sys.argv) > 3 else 60
tier = sys.argv[4] if len(sys.argv) > 4 else "quick"
for r in run_harness("C" + f[1:3], "dev/" + fn, f, fn, tmo, tier):
    print(r["status"], round(r["wall_s"], 1), r["detail"][:400], r["cex"])
