"""Engine E2 ("strkernel"): CrossHair on real leaf functions, driven through its API.

One job = one harness function of /verif/kernels/<file>.py.  The harness calls the REAL spydrnet
function with symbolic str/int arguments and has a PEP-316 contract; CrossHair explores every
path with z3 and either confirms the post-condition over all paths inside the `pre:` bounds or
returns concrete arguments, which are re-run natively (the replay) before anything is reported.
"""
import ast
import importlib.util
import json
import os
import re
import shutil
import sys
import tempfile
import time

from vf.core import (result, DISCHARGED, VIOLATED, INCONCLUSIVE, VACUOUS, ERROR, KNOWN, VERIF,
                     findings_for, fn_ident)

EXCL_MARK = "pre: True  # EXCLUSIONS"


def _load(path, modname):
    spec = importlib.util.spec_from_file_location(modname, path)
    mod = importlib.util.module_from_spec(spec)
    sys.modules[modname] = mod
    spec.loader.exec_module(mod)
    return mod


def _variant(src, fn, exclusions, twin):
    """Return harness source in which function `fn` has the exclusion pre-conditions inserted and
    (for the reachability twin) its post-condition replaced by False."""
    lines = src.split("\n")
    out, inside = [], False
    for ln in lines:
        m = re.match(r"def (\w+)\(", ln)
        if m:
            inside = (m.group(1) == fn)
        if inside and EXCL_MARK in ln:
            ind = ln[: len(ln) - len(ln.lstrip())]
            for e in exclusions:
                out.append("%spre: not (%s)" % (ind, e))
            if not exclusions:
                out.append(ln)
            continue
        if inside and twin and ln.strip().startswith("post:"):
            ind = ln[: len(ln) - len(ln.lstrip())]
            out.append(ind + "post: False")
            continue
        out.append(ln)
    return "\n".join(out)


def _parse_call(msg, fn):
    """CrossHair message -> kwargs of the counterexample call."""
    i = msg.find(fn + "(")
    if i < 0:
        return None
    depth, j = 0, i + len(fn)
    for k in range(j, len(msg)):
        if msg[k] == "(":
            depth += 1
        elif msg[k] == ")":
            depth -= 1
            if depth == 0:
                call = msg[i:k + 1]
                break
    else:
        return None
    try:
        node = ast.parse(call, mode="eval").body
        kw = {}
        for n, a in enumerate(node.args):
            kw["_pos%d" % n] = ast.literal_eval(a)
        for k in node.keywords:
            kw[k.arg] = ast.literal_eval(k.value)
        return kw
    except Exception:
        return None


def _analyze(mod, fn, tmo):
    from crosshair.core_and_libs import analyze_function
    from crosshair.options import AnalysisOptionSet
    from crosshair.statespace import MessageType
    opts = AnalysisOptionSet(per_condition_timeout=tmo, per_path_timeout=tmo, report_all=True,
                             max_uninteresting_iterations=10 ** 9)
    t0 = time.time()
    msgs = []
    for c in analyze_function(getattr(mod, fn), opts):
        msgs.extend(c.analyze())
    return msgs, time.time() - t0, MessageType


def native_replay(path, fn, kwargs):
    """Run the harness natively on concrete arguments.  Returns (violates, text)."""
    mod = _load(path, "_vf_replay_%d" % (time.time_ns() % 10 ** 9))
    f = getattr(mod, fn)
    import inspect
    params = list(inspect.signature(f).parameters)
    args = dict(kwargs)
    for k in list(args):
        if k.startswith("_pos"):
            args[params[int(k[4:])]] = args.pop(k)
    try:
        r = f(**args)
    except Exception as e:  # an undeclared exception is a violation of the contract as well
        return True, "raised %s: %s" % (type(e).__name__, e)
    return (r is not True), "returned %r" % (r,)


def run_harness(prop, name, file, fn, timeout, tier="quick", twin_timeout=60, env=None):
    """Decide one E2 obligation.  Iterates: counterexample -> native replay -> known-finding
    match -> exclude and re-query, so that a different violation is still found."""
    t_all = time.time()
    os.environ["VF_TIER"] = tier
    os.environ.update({k: str(v) for k, v in (env or {}).items()})
    path = os.path.join(VERIF, "kernels", file + ".py")
    src = open(path).read()
    scratch = tempfile.mkdtemp(prefix="vf_e2_", dir=os.environ.get("VF_SCRATCH") or None)
    res = []
    try:
        known = findings_for(prop, name)
        exclusions, hits = [], []
        queries, solver_s = 0, 0.0
        base = _load(path, "_vf_base_" + file)
        target = getattr(base, fn)
        funcs = [fn_ident(f) for f in getattr(target, "encodes", [])]
        bounds = dict(getattr(target, "bounds", {}))
        bounds["tier"] = tier
        bounds.update(env or {})
        bounds["per_condition_timeout_s"] = timeout
        # reachability twin
        tw = os.path.join(scratch, "twin.py")
        open(tw, "w").write(_variant(src, fn, [], True))
        msgs, dt, MT = _analyze(_load(tw, "_vf_twin"), fn, twin_timeout)
        queries += 1
        solver_s += dt
        twin_ok = any(m.state in (MT.POST_FAIL,) for m in msgs)
        twins = {"post_false_refuted": twin_ok}
        if not twin_ok:
            return [result(name, VACUOUS, "E2/crosshair", queries=queries, solver_s=solver_s,
                           bounds=bounds, functions=funcs, twins=twins,
                           detail="reachability twin not refuted: %s" % [m.state.name for m in msgs],
                           wall_s=time.time() - t_all)]
        deadline = time.time() + timeout
        status, detail, cex, replay = None, "", None, None
        for rnd in range(8):
            v = os.path.join(scratch, "v%d.py" % rnd)
            open(v, "w").write(_variant(src, fn, exclusions, False))
            remaining = max(10.0, deadline - time.time())
            msgs, dt, MT = _analyze(_load(v, "_vf_v%d" % rnd), fn, remaining)
            queries += 1
            solver_s += dt
            bad = [m for m in msgs if m.state in (MT.POST_FAIL, MT.EXEC_ERR, MT.POST_ERR)]
            if bad:
                m = bad[0]
                kw = _parse_call(m.message, fn)
                if kw is None:
                    status, detail = ERROR, "cannot parse counterexample: " + m.message[:300]
                    break
                import inspect as _insp
                _params = list(_insp.signature(target).parameters)
                kw = {(_params[int(k[4:])] if k.startswith("_pos") else k): v for k, v in kw.items()}
                viol, txt = native_replay(path, fn, kw)
                if not viol:
                    status = ERROR
                    detail = "counterexample %r did not reproduce natively (%s)" % (kw, txt)
                    break
                matched = None
                for f in known:
                    try:
                        if eval(f["match"], dict(vars(base)), dict(kw)):
                            matched = f
                            break
                    except Exception:
                        pass
                if matched is not None:
                    hits.append((matched, kw, txt))
                    if matched["match"] not in exclusions:
                        exclusions.append(matched["match"])
                        continue
                    status, detail = ERROR, "exclusion did not exclude %r" % (kw,)
                    break
                status, cex = VIOLATED, kw
                detail = "%s; native replay %s" % (m.message[:300], txt)
                replay = {"engine": "E2", "property": prop, "obligation": name, "file": file,
                          "fn": fn, "kwargs": kw, "env": env or {}}
                break
            states = {m.state for m in msgs}
            if states and states <= {MT.CONFIRMED}:
                status = DISCHARGED
                detail = "confirmed over all paths"
            elif MT.PRE_UNSAT in states:
                status, detail = VACUOUS, "unable to meet precondition"
            else:
                status = INCONCLUSIVE
                detail = "not confirmed within %ss: %s" % (timeout, sorted(s.name for s in states))
            break
        else:
            status, detail = ERROR, "too many exclusion rounds"
        wall = time.time() - t_all
        for (f, kw, txt) in hits:
            res.append(result(name + "#" + f["id"], KNOWN, "E2/crosshair", finding=f["id"],
                              cex=kw, detail="%s (cex %r, %s)" % (f["what"], kw, txt),
                              bounds=bounds, functions=funcs, queries=1))
        if exclusions and status == DISCHARGED:
            detail += " after excluding known finding(s): " + "; ".join(exclusions)
        res.append(result(name, status, "E2/crosshair", queries=queries, solver_s=solver_s,
                          bounds=bounds, functions=funcs, twins=twins, detail=detail, cex=cex,
                          replay=replay, wall_s=wall, paths=queries))
        return res
    finally:
        shutil.rmtree(scratch, ignore_errors=True)
