"""Shared plumbing: obligations, results, process pool, evidence, known findings.

An *obligation* is one named claim decided by a solver over the real code.  A *job* is what one
worker process runs (one CrossHair harness, or one E1 symbolic execution that discharges several
clause-split obligations) and it returns a list of Result dicts.
"""
import hashlib
import inspect
import json
import os
import subprocess
import sys
import time
from concurrent.futures import ThreadPoolExecutor

VERIF = os.path.dirname(os.path.dirname(os.path.abspath(__file__)))
PY = os.path.join(VERIF, ".venv", "bin", "python")
EXIT_OK, EXIT_VIOLATION, EXIT_HARNESS = 0, 1, 2

DISCHARGED, VIOLATED, INCONCLUSIVE, VACUOUS, ERROR, KNOWN = (
    "discharged", "violated", "inconclusive", "vacuous", "harness_error", "known_finding")


def result(name, status, engine, **kw):
    r = dict(name=name, status=status, engine=engine, queries=0, solver_s=0.0, wall_s=0.0,
             bounds={}, functions=[], detail="", cex=None, replay=None, finding=None, twins={})
    r.update(kw)
    return r


def src_hash(obj):
    try:
        return hashlib.sha1(inspect.getsource(obj).encode()).hexdigest()[:12]
    except Exception:
        return "nosrc"


def qualname(obj):
    return "%s.%s" % (getattr(obj, "__module__", "?"), getattr(obj, "__qualname__", repr(obj)))


def fn_ident(obj):
    return "%s@%s" % (qualname(obj), src_hash(obj))


# ------------------------------------------------------------------------------------------------
def load_known_findings():
    p = os.path.join(VERIF, "known_findings.json")
    if not os.path.exists(p):
        return []
    return json.load(open(p))["findings"]


def findings_for(prop, obligation):
    """Known (unrepaired) findings whose obligation pattern matches.  'fixed' entries suppress
    nothing and are never returned."""
    import fnmatch
    out = []
    for f in load_known_findings():
        if f.get("status") != "known" or f["property"] != prop:
            continue
        if any(fnmatch.fnmatchcase(obligation, pat) for pat in f["obligations"]):
            out.append(f)
    return out


# ------------------------------------------------------------------------------------------------
def run_jobs(jobs, workers=16, log=None):
    """jobs: list of dict(module=..., func=..., args={...}, timeout=sec, name=...).
    Each runs `python -m vf.worker` in its own process; returns list of Result dicts."""
    results = []

    def one(job):
        t0 = time.time()
        env = dict(os.environ)
        env["PYTHONPATH"] = VERIF + os.pathsep + env.get("PYTHONPATH", "")
        env.setdefault("PYTHONHASHSEED", "0")
        try:
            p = subprocess.run([PY, "-m", "vf.worker"], input=json.dumps(job), text=True,
                               capture_output=True, timeout=job.get("timeout", 600) + 30, env=env,
                               cwd=VERIF)
        except subprocess.TimeoutExpired:
            return [result(job["name"], INCONCLUSIVE, job.get("engine", "?"),
                           detail="worker timed out after %ss" % job.get("timeout"),
                           wall_s=time.time() - t0)]
        out = None
        for line in p.stdout.splitlines():
            if line.startswith("@@RESULT@@"):
                out = json.loads(line[len("@@RESULT@@"):])
        if out is None:
            return [result(job["name"], ERROR, job.get("engine", "?"),
                           detail="worker produced no result (rc=%s): %s" % (
                               p.returncode, (p.stderr or p.stdout)[-1500:]),
                           wall_s=time.time() - t0)]
        return out

    with ThreadPoolExecutor(max_workers=workers) as ex:
        for rs in ex.map(one, jobs):
            for r in rs:
                results.append(r)
                if log:
                    log(r)
    return results


# ------------------------------------------------------------------------------------------------
def write_evidence(prop, tier, seed, results, wall_s, assumptions, extra=None):
    os.makedirs(os.path.join(VERIF, "evidence"), exist_ok=True)
    n = len(results)
    dis = sum(1 for r in results if r["status"] == DISCHARGED)
    known = [r for r in results if r["status"] == KNOWN]
    viol = [r for r in results if r["status"] == VIOLATED]
    inc = [r for r in results if r["status"] in (INCONCLUSIVE, VACUOUS, ERROR)]
    funcs = sorted({f for r in results for f in r.get("functions", [])})
    samples = []
    for r in results[:]:
        if len(samples) >= 12:
            break
        samples.append({k: r[k] for k in ("name", "status", "engine", "bounds", "queries",
                                          "solver_s", "detail", "twins") if k in r})
    cov = {
        "obligations": n,
        "discharged": dis,
        "known_findings": len(known),
        "inconclusive": len(inc),
        "evaluations": sum(int(r.get("queries", 0)) for r in results),
        "distinct_nontrivial": sum(1 for r in results if r.get("queries", 0) > 0),
        "rule": "one evaluation = one solver-decided query (z3 check-sat, or one CrossHair "
                "condition explored over all paths); an obligation is non-trivial when at least "
                "one solver query was needed to decide it and distinct by its name",
        "states": max(1, sum(int(r.get("paths", 0)) for r in results)),
        "transitions": max(1, sum(int(r.get("queries", 0)) for r in results)),
        "traces_validated_against_impl": sum(int(r.get("validated", 0)) for r in results),
        "samples": samples,
        "functions_encoded": funcs,
        "solver_time_s": round(sum(float(r.get("solver_s", 0)) for r in results), 2),
        "per_obligation": [
            {"name": r["name"], "status": r["status"], "engine": r["engine"],
             "queries": r.get("queries", 0), "solver_s": round(float(r.get("solver_s", 0)), 2),
             "wall_s": round(float(r.get("wall_s", 0)), 2), "bounds": r.get("bounds", {}),
             "twins": r.get("twins", {}), "detail": r.get("detail", "")[:400],
             "finding": r.get("finding")}
            for r in results],
        "exhaustive": False,
        "explanation": "bounded: every verdict holds for all values inside the bounds listed per "
                       "obligation and says nothing outside them",
    }
    if extra:
        cov.update(extra)
    ev = {
        "property_id": prop, "tier": tier, "seed": seed, "level": "model_checking",
        "coverage": cov, "assumptions": assumptions, "wall_s": round(wall_s, 2),
        "violations": len(viol),
    }
    with open(os.path.join(VERIF, "evidence", prop + ".json"), "w") as f:
        json.dump(ev, f, indent=1, sort_keys=True, default=str)
    return ev
