"""C12 / C11 on hierarchy-concrete fixtures."""
import time
import traceback

import z3
from vf.core import result, DISCHARGED, VIOLATED, INCONCLUSIVE, VACUOUS, ERROR, fn_ident, findings_for
from vf.e1.sym import (Ref, SAtom, ATOMS, NONE_ID, is_sym, ITE, AND, OR, NOT, EQ, NE, LT, B, IMPLIES, Unsupported)
from vf.e1.heap import SList
from vf.e1.vals import present, to_atom
from vf.e1.interp import Ctx, Frame, call_function
from vf.e1 import mutators as M, spec, replay, hier as H


def hwire_adjacency(h, u, fx, paths):
    """adjacency of hierarchical wires through instance port boundaries, stated from the pin->wire fields"""
    W = [p for p in paths if u.cls_of(p[-1])[0] == "Wire"]
    sh = fx["shape"]
    adj = {(a, b): False for a in W for b in W}
    for a in W:
        ipath = a[:-2]
        if len(ipath) < 2:
            continue
        inst = u.cls_of(ipath[-1])[1]
        d = fx["refs"][inst]
        wa = a[-1]
        for b in W:
            if b[:-2] != ipath[:-1]:
                continue
            wb = b[-1]
            conds = []
            for port in sh.get(("Definition", d, "_ports"), []):
                for pin in sh.get(("Port", port, "_pins"), []):
                    o = h.pinmap[inst][pin]
                    if o == NONE_ID:
                        continue
                    oi = u.cls_of(o)[1]
                    conds.append(AND(EQ(h.sc[("InnerPin", "_wire")][pin], wa), EQ(h.sc[("OuterPin", "_wire")][oi], wb)))
            c = OR(*conds)
            adj[(a, b)] = OR(adj[(a, b)], c)
            adj[(b, a)] = OR(adj[(b, a)], c)
    return W, adj


def closure(W, adj):
    R = {(a, b): OR(a == b, adj[(a, b)]) for a in W for b in W}
    for _ in range(len(W)):
        R = {(a, b): OR(R[(a, b)], *[AND(R[(a, c)], adj[(c, b)]) for c in W]) for a in W for b in W}
    return R


def trace_job(fixture, tier, timeout_ms=300000, only_start=None, only_goal=None, what="hwires"):
    """get_hwires(<hierarchical wire>, selection=ALL) == the electrically connected net, for every hierarchical
    wire of the fixture as the starting point (symbolic connections)."""
    import importlib
    ghw = importlib.import_module("spydrnet.util.get_hwires")
    ghc = importlib.import_module("spydrnet.util.get_hcables")
    from spydrnet.util.selection import Selection
    t0 = time.time()
    base = "C12/get_%s(ALL){%s}" % (what, fixture)
    u, pre, fx = H.build(fixture)
    out = []
    A = pre.type_constraints() + spec.inv_all(pre) + H.local_nets(pre, fx)
    A = [B(a) for a in A if a is not True]
    paths = H.enumerate_paths(u, fx)
    W, adj = hwire_adjacency(pre, u, fx, paths)
    R = closure(W, adj)
    st0 = M.check(A, True, 60000)[0]
    if st0 != "sat":
        return [result(base, VACUOUS, "E1/symheap", detail="fixture precondition %s" % st0)]
    for si, start in enumerate(W):
        if only_start is not None and si != only_start:
            continue
        name = "%s/from=%s" % (base, "/".join(str(x) for x in start))
        heap = pre.copy()
        ctx = Ctx(heap, M.REAL)
        M.listeners_none(ctx)
        ctx.loop_bound = 8
        H.install_hrefs(ctx, u, fx)
        fr = Frame(None, True, {})
        keep_all = lambda x: True
        ctx.natives[keep_all] = lambda c, f, a, k: True
        try:
            res = call_function(ctx, fr, ghw._get_hwires if what == "hwires" else ghc._get_hcables,
                                [SList(1, [start]), Selection.ALL, ("*",), False, True, False, keep_all])
        except Unsupported as e:
            out.append(result(name, INCONCLUSIVE, "E1/symheap", detail="Unsupported: %s" % e, wall_s=time.time() - t0))
            continue
        funcs = sorted(fn_ident(f) for f in ctx.funcs_seen)
        cs, nodup = [], []
        for b in W:
            # (hierarchical cables: every cable of the fixtures has one wire, so the cable of b stands for b)
            bid = ATOMS.intern(b if what == "hwires" else H.HPath(b[:-1]))
            member = OR(*[AND(present(res, k), EQ(to_atom(res.el[k]).t, bid)) for k in range(res.cap)
                          if res.el[k] is not None])
            cs.append(EQ(member, R[(start, b)]) if (is_sym(member) or is_sym(R[(start, b)])) else member == R[(start, b)])
            cnt = [AND(present(res, k), EQ(to_atom(res.el[k]).t, bid)) for k in range(res.cap) if res.el[k] is not None]
            for x in range(len(cnt)):
                for y in range(x):
                    nodup.append(NOT(AND(cnt[x], cnt[y])))
        ok = [B(NOT(ctx.bound)), B(NOT(ctx.exc))]
        bounds = dict(u.describe(), fixture=fixture, start=list(start), hierarchical_wires=len(W))
        tw = {"returns": M.check(A, AND(NOT(ctx.exc), NOT(ctx.bound)), 400000)[0]}
        if tw["returns"] != "sat":
            out.append(result(name, VACUOUS if tw["returns"] == "unsat" else INCONCLUSIVE, "E1/symheap", twins=tw,
                              bounds=bounds, detail="normal return not shown reachable (%s): %s" % (
                                  tw["returns"], sorted(set(ctx.bound_why))[:3])))
            continue
        for g, goal in (("exactly-the-connected-net", NOT(AND(*cs))), ("no-duplicates", NOT(AND(*nodup))),
                        ("never-raises", None)):
            if only_goal is not None and g != only_goal:
                continue
            oname = name + "/" + g
            if goal is None:
                st, dt, mdl = M.check(A + [B(NOT(ctx.bound))], ctx.exc, timeout_ms)
            else:
                st, dt, mdl = M.check(A + ok, goal, timeout_ms)
            if st == "unsat":
                out.append(result(oname, DISCHARGED, "E1/symheap", queries=1, solver_s=dt, twins=tw, bounds=bounds,
                                  functions=funcs, detail="unsat", wall_s=time.time() - t0, paths=1))
            elif st != "sat":
                out.append(result(oname, INCONCLUSIVE, "E1/symheap", detail="solver: %s" % st, bounds=bounds))
            else:
                state = replay.heap_to_state(pre, mdl)
                rp = {"engine": "E1", "property": "C12", "obligation": oname, "kind": "trace", "state": state,
                      "start": list(start), "fixture": fixture, "what": what}
                try:
                    viol, txt = replay_trace(rp)
                except Exception:
                    viol, txt = False, "replay crashed: " + traceback.format_exc()[-400:]
                out.append(result(oname, VIOLATED if viol else ERROR, "E1/symheap", queries=1, solver_s=dt, twins=tw,
                                  bounds=bounds, functions=funcs, replay=rp if viol else None,
                                  detail=txt if viol else "counterexample did not reproduce: " + txt,
                                  wall_s=time.time() - t0))
    return out


def replay_trace(rp):
    """real netlist built from the model; real get_hwires from the start; oracle = plain union-find over the
    elaborated design"""
    import spydrnet as sdn
    from spydrnet.util.hierarchical_reference import HRef
    with replay.listener_config("none"):
        objs = replay.build(rp["state"])
        built, _ = replay.abstract(objs)
        diffs = replay.states_equal(rp["state"], built)
        if diffs:
            return False, "built state differs from the model: " + "; ".join(diffs[:3])
        start = HRef.from_sequence([objs[g] for g in rp["start"]])
        got = set()
        dup = False
        cables = rp.get("what", "hwires") == "hcables"
        for hw in (sdn.get_hcables if cables else sdn.get_hwires)(start, selection="ALL"):
            key = tuple(id(x) for x in _seq(hw))
            dup = dup or key in got
            got.add(key)
        # oracle: elaborate and union
        top = objs[rp["start"][0]]
        nets = {}

        def find(x):
            while nets[x] != x:
                nets[x] = nets[nets[x]]
                x = nets[x]
            return x

        def union(a, b):
            nets[find(a)] = find(b)
        allw = []

        def walk(path):
            inst = path[-1]
            d = inst.reference
            if d is None:
                return
            for cab in d.cables:
                for w in cab.wires:
                    k = tuple(id(x) for x in path + [cab, w])
                    nets.setdefault(k, k)
                    allw.append((path, cab, w, k))
            for ch in d.children:
                walk(path + [ch])
        walk([top])
        for path, cab, w, k in allw:
            if len(path) > 1:
                inst = path[-1]
                for pin in w.pins:
                    if isinstance(pin, sdn.InnerPin) and pin in inst.pins:
                        ow = inst.pins[pin].wire
                        if ow is not None and ow.cable is not None:
                            k2 = tuple(id(x) for x in path[:-1] + [ow.cable, ow])
                            if k2 in nets:
                                union(k, k2)
        skey = tuple(id(x) for x in _seq(start))
        want = {k for _, _, _, k in allw if find(k) == find(skey)}
        if cables:
            want = {k[:-1] for k in want}     # path of the cable that holds the wire
        return (got != want or dup), "get_%s(ALL) returned %d hierarchical %s%s, the connected net has %d" % (
            "hcables" if cables else "hwires", len(got), "cables" if cables else "wires",
            " (with duplicates)" if dup else "", len(want))


def _seq(href):
    out = []
    while href is not None:
        out.append(href.item)
        href = href.parent
    return list(reversed(out))


def occurrences_job(fixture, tier, timeout_ms=300000):
    """HRef.get_all_hrefs_of_instances(S) for an ARBITRARY subset S of the fixture's instances (symbolic
    membership): the result is exactly the set of instance paths of the elaborated design that end in a member
    of S, each once -- including members that are ancestors of other members."""
    from spydrnet.util.hierarchical_reference import HRef
    t0 = time.time()
    name = "C11/HRef.get_all_hrefs_of_instances{%s}" % fixture
    u, pre, fx = H.build(fixture)
    heap = pre.copy()
    ctx = Ctx(heap, M.REAL)
    M.listeners_none(ctx)
    ctx.loop_bound = 10
    paths, ids = H.install_hrefs(ctx, u, fx)
    fr = Frame(None, True, {})
    n = u.live["Instance"]
    wanted = [z3.Bool("wanted_%d" % i) for i in range(n)]
    S = SList(n, [Ref(u.gid("Instance", i), ("Instance",)) for i in range(n)], None, True, list(wanted))
    A = pre.type_constraints() + spec.inv_all(pre) + H.local_nets(pre, fx)
    A = [B(a) for a in A if a is not True]
    try:
        res = call_function(ctx, fr, HRef.get_all_hrefs_of_instances, [S])
    except Unsupported as e:
        return [result(name, INCONCLUSIVE, "E1/symheap", detail="Unsupported: %s" % e, wall_s=time.time() - t0)]
    ipaths = [p for p in paths if u.cls_of(p[-1])[0] == "Instance"]
    cs, nodup = [], []
    for p in ipaths:
        pid = ATOMS.intern(p)
        hits = [AND(present(res, k), EQ(to_atom(res.el[k]).t, pid)) for k in range(res.cap) if res.el[k] is not None]
        member = OR(*hits)
        want = wanted[u.cls_of(p[-1])[1]]
        cs.append(EQ(member, want))
        for x in range(len(hits)):
            for y in range(x):
                nodup.append(NOT(AND(hits[x], hits[y])))
    # nothing but instance paths is returned
    extra = []
    allowed = {ATOMS.intern(p) for p in ipaths}
    for k in range(res.cap):
        if res.el[k] is not None:
            extra.append(IMPLIES(present(res, k), OR(*[EQ(to_atom(res.el[k]).t, a) for a in allowed])))
    funcs = sorted(fn_ident(f) for f in ctx.funcs_seen)
    bounds = dict(u.describe(), fixture=fixture, instance_paths=len(ipaths), subsets="all 2^%d subsets of the instances (symbolic)" % n)
    ok = [B(NOT(ctx.bound)), B(NOT(ctx.exc))]
    tw = {"returns": M.check(A, AND(NOT(ctx.exc), NOT(ctx.bound)), 300000)[0]}
    if tw["returns"] != "sat":
        return [result(name, VACUOUS if tw["returns"] == "unsat" else INCONCLUSIVE, "E1/symheap", twins=tw,
                       bounds=bounds, detail="normal return not shown reachable: %s" % sorted(set(ctx.bound_why))[:3])]
    out = []
    for g, goal in (("one-reference-per-occurrence-no-omission", NOT(AND(*cs))), ("no-duplicates", NOT(AND(*nodup))),
                    ("only-occurrences-of-the-asked-instances", NOT(AND(*extra))), ("never-raises", None)):
        oname = name + "/" + g
        if goal is None:
            st, dt, mdl = M.check(A + [B(NOT(ctx.bound))], ctx.exc, timeout_ms)
        else:
            st, dt, mdl = M.check(A + ok, goal, timeout_ms)
        if st == "unsat":
            out.append(result(oname, DISCHARGED, "E1/symheap", queries=1, solver_s=dt, twins=tw, bounds=bounds,
                              functions=funcs, detail="unsat", wall_s=time.time() - t0, paths=1))
        elif st != "sat":
            out.append(result(oname, INCONCLUSIVE, "E1/symheap", detail="solver: %s" % st, bounds=bounds))
        else:
            state = replay.heap_to_state(pre, mdl)
            rp = {"engine": "E1", "property": "C11", "obligation": oname, "kind": "occurrences", "state": state,
                  "wanted": [u.gid("Instance", i) for i in range(n) if replay.mval(mdl, wanted[i]) is True],
                  "top": u.gid("Instance", fx["top"])}
            try:
                viol, txt = replay_occurrences(rp)
            except Exception:
                viol, txt = False, "replay crashed: " + traceback.format_exc()[-400:]
            out.append(result(oname, VIOLATED if viol else ERROR, "E1/symheap", queries=1, solver_s=dt, twins=tw,
                              bounds=bounds, functions=funcs, replay=rp if viol else None,
                              detail=txt if viol else "counterexample did not reproduce: " + txt,
                              wall_s=time.time() - t0))
    return out


def replay_occurrences(rp):
    import spydrnet as sdn
    from spydrnet.util.hierarchical_reference import HRef
    with replay.listener_config("none"):
        objs = replay.build(rp["state"])
        built, _ = replay.abstract(objs)
        diffs = replay.states_equal(rp["state"], built)
        if diffs:
            return False, "built state differs from the model: " + "; ".join(diffs[:3])
        want_objs = [objs[g] for g in rp["wanted"]]
        got = [tuple(id(x) for x in _seq(h)) for h in HRef.get_all_hrefs_of_instances(set(want_objs))] if want_objs else []
        expect = []

        def walk(path):
            if any(path[-1] is w for w in want_objs):
                expect.append(tuple(id(x) for x in path))
            d = path[-1].reference
            if d is not None:
                for ch in d.children:
                    walk(path + [ch])
        walk([objs[rp["top"]]])
        bad = sorted(got) != sorted(expect)
        return bad, "asked for %d instances: %d references returned, %d occurrences exist" % (
            len(want_objs), len(got), len(expect))


def _endpoints(u, fx, h):
    """leaf-instance pins and top-level port pins of the fixture: [(label, class, local slot)]"""
    sh = fx["shape"]
    eps = []
    top_def = fx["refs"][fx["top"]]
    for port in sh.get(("Definition", top_def, "_ports"), []):
        for pin in sh.get(("Port", port, "_pins"), []):
            eps.append(("top-port-pin%d" % pin, "InnerPin", pin))
    leaf_defs = {d for d in range(u.live["Definition"]) if not sh.get(("Definition", d, "_children"))
                 and not sh.get(("Definition", d, "_cables"))}
    for i, d in fx["refs"].items():
        if d in leaf_defs and i != fx["top"]:
            for p in range(u.live["InnerPin"]):
                o = h.pinmap[i][p]
                if o != NONE_ID:
                    eps.append(("inst%d.pin%d" % (i, p), "OuterPin", u.cls_of(o)[1]))
    return eps


def flatten_job(fixture, tier, timeout_ms=400000, only_goal=None, wire_cube=None, cube_name=""):
    """flatten(netlist) on a hierarchy-concrete, uniquified fixture with SYMBOLIC connections: two endpoints
    (leaf pins, top port pins) are connected afterwards iff they were connected through the hierarchy before;
    only leaf instances remain, named by their path; the netlist stays well-formed."""
    import spydrnet.flatten as fl
    t0 = time.time()
    name = "C09/flatten{%s}%s" % (fixture, "{%s}" % cube_name if cube_name else "")
    u, pre, fx = H.build(fixture)
    if wire_cube:
        H.apply_wire_cube(pre, fx, {int(k): v for k, v in wire_cube.items()})
    heap = pre.copy()
    ctx = Ctx(heap, M.REAL)
    M.listeners_none(ctx)
    ctx.loop_bound = 6
    fr = Frame(None, True, {})
    kn = u.keys.index(".NAME")
    A = pre.type_constraints() + spec.inv_all(pre) + H.local_nets(pre, fx)
    # instances and cables carry concrete, distinct names (the property quantifies over named items; the names
    # flatten builds are then concrete strings and only the connections are left to the solver)
    for c, pfx_ in (("Instance", "i"), ("Cable", "c")):
        for i in range(u.live[c]):
            pre.data[c][i][kn] = (True, ATOMS.intern("%s%d" % (pfx_, i)))
            heap.data[c][i][kn] = pre.data[c][i][kn]
    A = [B(a) for a in A if a is not True]
    ctx.path_assumptions = list(A)
    ctx.prune_infeasible_raises = True
    ctx.globals_over[("spydrnet.flatten", "mod_name_uid")] = 0
    ctx.globals_over[("spydrnet.flatten", "unique_number")] = 0
    paths = H.enumerate_paths(u, fx)
    W, adj = hwire_adjacency(pre, u, fx, paths)
    R = closure(W, adj)
    try:
        call_function(ctx, fr, fl.flatten, [Ref(u.gid("Netlist", 0), ("Netlist",))])
    except Unsupported as e:
        return [result(name, INCONCLUSIVE, "E1/symheap", detail="Unsupported: %s" % e, wall_s=time.time() - t0)]
    post = heap
    eps = _endpoints(u, fx, pre)
    # the hierarchical wire an endpoint sits on before: outer pins of an instance at path P sit on a wire of P's parent
    inst_paths = {}
    for p in paths:
        if u.cls_of(p[-1])[0] == "Instance":
            inst_paths.setdefault(u.cls_of(p[-1])[1], []).append(p)

    def hwires_of(ep):
        lab, c, slot = ep
        wt = pre.sc[(c, "_wire")][slot]
        rows = []
        if c == "InnerPin":
            par = (u.gid("Instance", fx["top"]),)
        else:
            inst = u.cls_of(pre.sc[("OuterPin", "_instance")][slot])[1]
            ps = inst_paths.get(inst, [])
            assert len(ps) == 1, "fixture must be uniquified"
            par = tuple(ps[0][:-1])
        for w in W:
            if tuple(w[:-2]) == par:
                rows.append((EQ(wt, w[-1]), w))
        return rows
    conn = []
    for x in range(len(eps)):
        for y in range(x):
            a, b = eps[x], eps[y]
            before = OR(*[AND(ca, cb, R[(wa, wb)]) for ca, wa in hwires_of(a) for cb, wb in hwires_of(b)])
            wa2, wb2 = post.sc[(a[1], "_wire")][a[2]], post.sc[(b[1], "_wire")][b[2]]
            after = AND(NE(wa2, NONE_ID), EQ(wa2, wb2))
            conn.append(EQ(before, after))
    top_def = fx["refs"][fx["top"]]
    (cl, cel) = post.ls[("Definition", "_children")][top_def]
    leaf_insts = sorted({u.cls_of(pre.sc[("OuterPin", "_instance")][e[2]])[1] for e in eps if e[1] == "OuterPin"})
    only_leaves = [EQ(cl, len(leaf_insts))] + [
        OR(*[AND(LT(k, cl), EQ(cel[k], u.gid("Instance", i))) for k in range(len(cel))]) for i in leaf_insts]
    goals = {"endpoints-connected-iff-they-were": NOT(AND(*conn)),
             "only-leaf-instances-remain-one-per-occurrence": NOT(AND(*only_leaves))}
    inv = spec.inv_groups(post)
    wf = [c for g, cs in inv.items() for c in cs]
    goals["well-formed-afterwards"] = NOT(AND(*wf))
    funcs = sorted(fn_ident(f) for f in ctx.funcs_seen)
    bounds = dict(u.describe(), fixture=fixture, endpoints=[e[0] for e in eps],
                  connection_cube=wire_cube or "all connections symbolic")
    ok = [B(NOT(ctx.bound)), B(NOT(ctx.exc))]
    tw = {"returns": M.check(A, AND(NOT(ctx.exc), NOT(ctx.bound)), 300000)[0]}
    if tw["returns"] != "sat":
        return [result(name, VACUOUS if tw["returns"] == "unsat" else INCONCLUSIVE, "E1/symheap", twins=tw,
                       bounds=bounds, detail="normal return not shown reachable: %s" % sorted(set(ctx.bound_why))[:3])]
    out = []
    for g, goal in list(goals.items()) + [("never-raises", None)]:
        if only_goal is not None and g != only_goal:
            continue
        oname = name + "/" + g
        if goal is None:
            st, dt, mdl = M.check(A + [B(NOT(ctx.bound))], ctx.exc, timeout_ms)
        else:
            st, dt, mdl = M.check(A + ok, goal, timeout_ms)
        if st == "unsat":
            out.append(result(oname, DISCHARGED, "E1/symheap", queries=1, solver_s=dt, twins=tw, bounds=bounds,
                              functions=funcs, detail="unsat", wall_s=time.time() - t0, paths=1))
        elif st != "sat":
            out.append(result(oname, INCONCLUSIVE, "E1/symheap", detail="solver: %s" % st, bounds=bounds))
        else:
            state = replay.heap_to_state(pre, mdl)
            rp = {"engine": "E1", "property": "C09", "obligation": oname, "kind": "flatten", "state": state,
                  "netlist": u.gid("Netlist", 0)}
            try:
                viol, txt = replay_flatten(rp)
            except Exception:
                viol, txt = False, "replay crashed: " + traceback.format_exc()[-400:]
            out.append(result(oname, VIOLATED if viol else ERROR, "E1/symheap", queries=1, solver_s=dt, twins=tw,
                              bounds=bounds, functions=funcs, replay=rp if viol else None,
                              detail=txt if viol else "counterexample did not reproduce: " + txt,
                              wall_s=time.time() - t0))
    return out


def _elaborated_nets(netlist):
    """plain elaboration: partition of (leaf pin / top port pin) endpoints into connected nets"""
    import spydrnet as sdn
    parent = {}

    def find(x):
        parent.setdefault(x, x)
        while parent[x] != x:
            parent[x] = parent[parent[x]]
            x = parent[x]
        return x

    def union(a, b):
        parent[find(a)] = find(b)
    endpoints = {}
    top = netlist.top_instance

    def walk(path):
        inst = path[-1]
        d = inst.reference
        key = tuple(id(x) for x in path)
        for cab in d.cables:
            for w in cab.wires:
                wk = ("w", key, id(w))
                find(wk)
                for pin in w.pins:
                    if isinstance(pin, sdn.InnerPin):
                        if len(path) == 1:
                            ek = ("top", pin.port.name, pin.port.pins.index(pin))
                            endpoints[ek] = wk
                            union(ek, wk)
                        else:
                            op = inst.pins[pin]
                            if op.wire is not None:
                                union(wk, ("w", tuple(id(x) for x in path[:-1]), id(op.wire)))
                    else:
                        ch = pin.instance
                        if ch.reference.is_leaf():
                            names = "/".join(x.name or "?" for x in path[1:] + [ch])
                            ek = ("leaf", names, pin.inner_pin.port.name, pin.inner_pin.port.pins.index(pin.inner_pin))
                            endpoints[ek] = wk
                            union(ek, wk)
        for ch in d.children:
            if not ch.reference.is_leaf():
                walk(path + [ch])
    walk([top])
    groups = {}
    for ek in endpoints:
        groups.setdefault(find(ek), set()).add(ek)
    return sorted(sorted(map(str, g)) for g in groups.values())


def replay_flatten(rp):
    import spydrnet as sdn
    from spydrnet.flatten import flatten
    from vf.e1 import wellformed
    with replay.listener_config("none"):
        objs = replay.build(rp["state"])
        built, _ = replay.abstract(objs)
        diffs = replay.states_equal(rp["state"], built)
        if diffs:
            return False, "built state differs from the model: " + "; ".join(diffs[:3])
        n = objs[rp["netlist"]]
        before = _elaborated_nets(n)
        try:
            flatten(n)
        except Exception as e:
            return True, "flatten raised %s: %s" % (type(e).__name__, str(e)[:80])
        after = _elaborated_nets(n)
        probs = []
        if before != after:
            probs.append("connectivity changed: %s -> %s" % (before, after))
        if any(not c.reference.is_leaf() for c in n.top_instance.reference.children):
            probs.append("a hierarchical instance remains")
        probs += wellformed.c01_problems(wellformed.closure(list(objs.values())))
        return bool(probs), "flatten: %s" % probs[:3]


# ---- C11 / C13: the name maps built by the depth-first walks ------------------------------------------------------
class _NameMap:
    """stand-in for the `namemap` dictionary (name -> list of references), interpreted like the code under test:
    records every (name, reference) pair appended, in order"""

    def __init__(self, names, refs):
        self.names = names
        self.refs = refs

    def __contains__(self, key):
        return key in self.names

    def __setitem__(self, key, value):
        pass

    def __getitem__(self, key):
        return _NameMapEntry(self, key)


class _NameMapEntry:
    def __init__(self, owner, key):
        self.owner = owner
        self.key = key

    def append(self, href):
        self.owner.names.append(self.key)
        self.owner.refs.append(href)


INST_NAMES = ["top", "m", "f", "l", "u"]
CABLE_NAMES = ["t", "w_in", "w_out", "w", "x"]


def namemap_job(fixture, which, tier, recursive=True, timeout_ms=300000, prop="C11"):
    """_update_hwire_namemap / _update_hcable_namemap(<top instance>, recursive, found, namemap) on a hierarchy-concrete
    fixture: exactly one entry per cable / wire occurrence below the start (all levels when recursive, wire-only
    cells included, leaf cells not entered), named by the slash-joined instance names below the top, the cable name
    and -- for bits of an array cable, one-bit arrays included -- the bus index lower_index + position."""
    import importlib
    mod = importlib.import_module("spydrnet.util.get_hwires" if which == "hwire" else "spydrnet.util.get_hcables")
    fn = mod._update_hwire_namemap if which == "hwire" else mod._update_hcable_namemap
    from vf.e1.vals import Local
    from vf.e1.sym import mkbool, SInt
    from vf.e1 import ops
    t0 = time.time()
    name = "%s/%s{%s,recursive=%s}" % (prop, fn.__name__, fixture, recursive)
    u, pre, fx = H.build(fixture, atoms=tuple(INST_NAMES + CABLE_NAMES + [""]))
    kn = u.keys.index(".NAME")
    # concrete, distinct names; whether a cable carries its name at all, its array flag and base index are symbolic
    for i in range(u.live["Instance"]):
        pre.data["Instance"][i][kn] = (True, ATOMS.intern(INST_NAMES[i]))
    for c in range(u.live["Cable"]):
        pre.data["Cable"][c][kn] = (z3.Bool("cable%d_has_name" % c), ATOMS.intern(CABLE_NAMES[c]))
    heap = pre.copy()
    ctx = Ctx(heap, M.REAL)
    M.listeners_none(ctx)
    ctx.loop_bound = 12
    paths, ids = H.install_hrefs(ctx, u, fx)
    ctx.local_classes = (_NameMap, _NameMapEntry)
    ctx.interp_prefixes = ("spydrnet", "vf.e1.hier_jobs")
    fr = Frame(None, True, {})
    A = pre.type_constraints() + spec.inv_all(pre) + H.local_nets(pre, fx)
    for c in range(u.live["Cable"]):
        L = pre.sc[("Cable", "_lower_index")][c]
        A += [L >= 0, L <= 3]
    A = [B(a) for a in A if a is not True]
    ctx.path_assumptions = list(A)
    ctx.prune_infeasible_raises = True
    cap = len([p for p in paths if u.cls_of(p[-1])[0] in ("Wire", "Cable")]) + 2
    blank = lambda: SList(0, [None] * cap)
    nm = Local(_NameMap, {"names": blank(), "refs": blank()})
    found = SList(0, [None] * cap, None, True)
    # the recursive flag is fixed by the job (cube split): with the hierarchy concrete the walk itself is concrete,
    # the solver decides the naming (name present or not, array flag, base index of every cable)
    top_path = H.HPath((u.gid("Instance", fx["top"]),))
    try:
        call_function(ctx, fr, fn, [top_path, recursive, found, nm])
    except Unsupported as e:
        return [result(name, INCONCLUSIVE, "E1/symheap", detail="Unsupported: %s" % e, wall_s=time.time() - t0)]
    names, refs = nm.f["names"], nm.f["refs"]
    sh = fx["shape"]
    kind = "Wire" if which == "hwire" else "Cable"
    items = [p for p in paths if u.cls_of(p[-1])[0] == kind]
    cs, nodup, named = [], [], []
    leaf_defs = {d for d in range(u.live["Definition"]) if not sh.get(("Definition", d, "_children"))
                 and not sh.get(("Definition", d, "_cables"))}
    for p in items:
        pid = ATOMS.intern(p)
        ipath = p[:-2] if kind == "Wire" else p[:-1]
        depth = len(ipath)
        hits = [AND(present(refs, k), EQ(to_atom(refs.el[k]).t, pid)) for k in range(refs.cap) if refs.el[k] is not None]
        want = True if depth == 1 else recursive
        cs.append(EQ(OR(*hits), want) if is_sym(OR(*hits)) else (OR(*hits) == want))
        for x in range(len(hits)):
            for y in range(x):
                nodup.append(NOT(AND(hits[x], hits[y])))
        # expected name
        cab = u.cls_of(p[-2] if kind == "Wire" else p[-1])[1]
        parts = [INST_NAMES[u.cls_of(g)[1]] for g in ipath[1:]]
        has_name = pre.data["Cable"][cab][kn][0]
        for hn in (True, False):
            base = "/".join(parts + [CABLE_NAMES[cab] if hn else ""])
            if kind == "Cable":
                exp = [(True, base)]
            else:
                wires = sh.get(("Cable", cab, "_wires"), [])
                pos = wires.index(u.cls_of(p[-1])[1])
                scalar = AND(pre.sc[("Cable", "_is_scalar")][cab], len(wires) <= 1)
                L = pre.sc[("Cable", "_lower_index")][cab]
                exp = [(scalar, base)] + [(AND(NOT(scalar), EQ(L, l)), "%s[%d]" % (base, l + pos)) for l in range(4)]
            for k in range(refs.cap):
                if refs.el[k] is None or names.el[k] is None:
                    continue
                hit = AND(present(refs, k), EQ(to_atom(refs.el[k]).t, pid), (has_name if hn else NOT(has_name)))
                for cond, text in exp:
                    named.append(IMPLIES(AND(hit, cond), EQ(to_atom(names.el[k]).t, ATOMS.intern(text))))
    funcs = sorted(fn_ident(f) for f in ctx.funcs_seen)
    bounds = dict(u.describe(), fixture=fixture, occurrences=len(items),
                  recursive=recursive, symbolic="per cable: has a name, array flag, base index 0..3")
    ok = [B(NOT(ctx.bound)), B(NOT(ctx.exc))]
    tw = {"returns": M.check(A, AND(NOT(ctx.exc), NOT(ctx.bound)), 300000)[0]}
    if any(v != "sat" for v in tw.values()):
        return [result(name, VACUOUS, "E1/symheap", twins=tw, bounds=bounds,
                       detail="reachability twin failed %s: %s" % (tw, sorted(set(ctx.bound_why))[:3]))]
    out = []
    for g, goal in (("one-entry-per-occurrence-no-omission", NOT(AND(*cs))), ("no-duplicates", NOT(AND(*nodup))),
                    ("named-by-path-cable-and-bus-index", NOT(AND(*named))), ("never-raises", None)):
        oname = name + "/" + g
        if goal is None:
            st, dt, mdl = M.check(A + [B(NOT(ctx.bound))], ctx.exc, timeout_ms)
        else:
            st, dt, mdl = M.check(A + ok, goal, timeout_ms)
        if st == "unsat":
            out.append(result(oname, DISCHARGED, "E1/symheap", queries=1, solver_s=dt, twins=tw, bounds=bounds,
                              functions=funcs, detail="unsat", wall_s=time.time() - t0, paths=1))
        elif st != "sat":
            out.append(result(oname, INCONCLUSIVE, "E1/symheap", detail="solver: %s" % st, bounds=bounds))
        else:
            state = replay.heap_to_state(pre, mdl)
            rp = {"engine": "E1", "property": prop, "obligation": oname, "kind": "namemap", "state": state, "which": which,
                  "recursive": recursive, "top": u.gid("Instance", fx["top"]), "netlist": u.gid("Netlist", 0)}
            try:
                viol, txt = replay_namemap(rp)
            except Exception:
                viol, txt = False, "replay crashed: " + traceback.format_exc()[-400:]
            out.append(result(oname, VIOLATED if viol else ERROR, "E1/symheap", queries=1, solver_s=dt, twins=tw,
                              bounds=bounds, functions=funcs, replay=rp if viol else None,
                              detail=txt if viol else "counterexample did not reproduce: " + txt,
                              wall_s=time.time() - t0))
    return out


def replay_namemap(rp):
    """the public query on the real netlist: get_hwires / get_hcables(top instance, recursive=...) names"""
    import spydrnet as sdn
    with replay.listener_config("none"):
        objs = replay.build(rp["state"])
        built, _ = replay.abstract(objs)
        diffs = replay.states_equal(rp["state"], built)
        if diffs:
            return False, "built state differs from the model: " + "; ".join(diffs[:3])
        top = objs[rp["top"]]
        q = sdn.get_hwires if rp["which"] == "hwire" else sdn.get_hcables
        # (a netlist as the root is what routes the query through the name map; an instance root uses another walk)
        got = sorted(h.name for h in q(objs[rp["netlist"]], recursive=rp["recursive"]))
        expect = []

        def walk(inst, prefix, depth):
            d = inst.reference
            if d is None:
                return
            for cable in d.cables:
                base = "/".join(prefix + [cable.name or ""])
                if rp["which"] == "hcable":
                    expect.append(base)
                else:
                    for k, w in enumerate(cable.wires):
                        scalar = len(cable.wires) <= 1 and cable._is_scalar
                        expect.append(base if scalar else "%s[%d]" % (base, cable.lower_index + k))
            if rp["recursive"]:
                for ch in d.children:
                    if ch.reference is not None and (ch.reference.children or ch.reference.cables):
                        walk(ch, prefix + [ch.name or ""], depth + 1)
        walk(top, [], 0)
        if got != sorted(expect):
            return True, "%s(netlist, recursive=%s) names %s, the design has %s" % (
                q.__name__, rp["recursive"], got, sorted(expect))
        # the keys of the name map are what a name pattern is matched against: ask for every expected name
        import collections
        import re
        for nm_, cnt in sorted(collections.Counter(expect).items()):
            res = list(q(objs[rp["netlist"]], re.escape(nm_), is_re=True, recursive=rp["recursive"]))
            if len(res) != cnt or any(h.name != nm_ for h in res):
                return True, "%s(netlist, %r, is_re=True, recursive=%s) returned %s, the design has %d occurrence(s) of that name" % (
                    q.__name__, re.escape(nm_), rp["recursive"], [h.name for h in res], cnt)
        return False, "%s(netlist, recursive=%s): every name %s resolves to its occurrences" % (
            q.__name__, rp["recursive"], sorted(expect))


def hpins_job(fixture, tier, timeout_ms=300000):
    """get_hpins(<hierarchical wire>): exactly the port pins (of the wire's own instance) and the sub-instance pins
    attached to that wire, each once -- for every hierarchical wire of the fixture and every connection pattern."""
    import importlib
    ghp = importlib.import_module("spydrnet.util.get_hpins")
    t0 = time.time()
    base = "C12/get_hpins(hwire){%s}" % fixture
    u, pre, fx = H.build(fixture)
    A = pre.type_constraints() + spec.inv_all(pre) + H.local_nets(pre, fx)
    A = [B(a) for a in A if a is not True]
    paths = H.enumerate_paths(u, fx)
    W = [p for p in paths if u.cls_of(p[-1])[0] == "Wire"]
    P = [p for p in paths if u.cls_of(p[-1])[0] == "InnerPin"]
    out = []
    for start in W:
        name = "%s/from=%s" % (base, "/".join(str(x) for x in start))
        heap = pre.copy()
        ctx = Ctx(heap, M.REAL)
        M.listeners_none(ctx)
        ctx.loop_bound = 8
        H.install_hrefs(ctx, u, fx)
        fr = Frame(None, True, {})
        keep_all = lambda x: True
        ctx.natives[keep_all] = lambda c, f, a, k: True
        try:
            res = call_function(ctx, fr, ghp._get_hpins, [SList(1, [start]), ("*",), False, True, False, keep_all])
        except Unsupported as e:
            out.append(result(name, INCONCLUSIVE, "E1/symheap", detail="Unsupported: %s" % e, wall_s=time.time() - t0))
            continue
        ipath = tuple(start[:-2])
        wire = start[-1]
        cs, nodup = [], []
        for p in P:
            pin_slot = u.cls_of(p[-1])[1]
            holder = tuple(p[:-2])
            if holder == ipath:
                want = EQ(pre.sc[("InnerPin", "_wire")][pin_slot], wire)
            elif holder[:-1] == ipath and len(holder) == len(ipath) + 1:
                child = u.cls_of(holder[-1])[1]
                o = pre.pinmap[child][pin_slot]
                want = False if o == NONE_ID else EQ(pre.sc[("OuterPin", "_wire")][u.cls_of(o)[1]], wire)
            else:
                want = False
            pid = ATOMS.intern(p)
            hits = [AND(present(res, k), EQ(to_atom(res.el[k]).t, pid)) for k in range(res.cap) if res.el[k] is not None]
            member = OR(*hits)
            cs.append(EQ(member, want) if (is_sym(member) or is_sym(want)) else member == want)
            for x in range(len(hits)):
                for y in range(x):
                    nodup.append(NOT(AND(hits[x], hits[y])))
        funcs = sorted(fn_ident(f) for f in ctx.funcs_seen)
        bounds = dict(u.describe(), fixture=fixture, start=list(start), hierarchical_pins=len(P))
        ok = [B(NOT(ctx.bound)), B(NOT(ctx.exc))]
        tw = {"returns": M.check(A, AND(NOT(ctx.exc), NOT(ctx.bound)), 300000)[0]}
        if tw["returns"] != "sat":
            out.append(result(name, VACUOUS if tw["returns"] == "unsat" else INCONCLUSIVE, "E1/symheap", twins=tw, bounds=bounds,
                              detail="normal return not shown reachable (%s)" % tw["returns"]))
            continue
        for g, goal in (("exactly-the-pins-on-that-wire", NOT(AND(*cs))), ("no-duplicates", NOT(AND(*nodup))), ("never-raises", None)):
            oname = name + "/" + g
            if goal is None:
                st, dt, mdl = M.check(A + [B(NOT(ctx.bound))], ctx.exc, timeout_ms)
            else:
                st, dt, mdl = M.check(A + ok, goal, timeout_ms)
            if st == "unsat":
                out.append(result(oname, DISCHARGED, "E1/symheap", queries=1, solver_s=dt, twins=tw, bounds=bounds,
                                  functions=funcs, detail="unsat", wall_s=time.time() - t0, paths=1))
            elif st != "sat":
                out.append(result(oname, INCONCLUSIVE, "E1/symheap", detail="solver: %s" % st, bounds=bounds))
            else:
                state = replay.heap_to_state(pre, mdl)
                rp = {"engine": "E1", "property": "C12", "obligation": oname, "kind": "hpins", "state": state,
                      "start": list(start), "fixture": fixture}
                try:
                    viol, txt = replay_hpins(rp)
                except Exception:
                    viol, txt = False, "replay crashed: " + traceback.format_exc()[-400:]
                out.append(result(oname, VIOLATED if viol else ERROR, "E1/symheap", queries=1, solver_s=dt, twins=tw,
                                  bounds=bounds, functions=funcs, replay=rp if viol else None,
                                  detail=txt if viol else "counterexample did not reproduce: " + txt,
                                  wall_s=time.time() - t0))
    return out


def replay_hpins(rp):
    import spydrnet as sdn
    from spydrnet.util.hierarchical_reference import HRef
    with replay.listener_config("none"):
        objs = replay.build(rp["state"])
        built, _ = replay.abstract(objs)
        diffs = replay.states_equal(rp["state"], built)
        if diffs:
            return False, "built state differs from the model: " + "; ".join(diffs[:3])
        seq = [objs[g] for g in rp["start"]]
        start = HRef.from_sequence(seq)
        got = [tuple(id(x) for x in _seq(h)) for h in sdn.get_hpins(start)]
        ipath, wire = seq[:-2], seq[-1]
        want = []
        for pin in wire.pins:
            if isinstance(pin, sdn.InnerPin):
                want.append(tuple(id(x) for x in ipath + [pin.port, pin]))
            else:
                want.append(tuple(id(x) for x in ipath + [pin.instance, pin.inner_pin.port, pin.inner_pin]))
        bad = sorted(got) != sorted(want)
        return bad, "get_hpins(hierarchical wire) returned %d pins, %d are attached to it" % (len(got), len(want))


def selection_job(fixture, tier, timeout_ms=300000):
    """get_hwires(<hierarchical pin>, selection=INSIDE / OUTSIDE): exactly the wire attached on the inside,
    respectively the outside, of that pin (nothing if that side is open) -- for every hierarchical pin."""
    import importlib
    ghw = importlib.import_module("spydrnet.util.get_hwires")
    from spydrnet.util.selection import Selection
    t0 = time.time()
    u, pre, fx = H.build(fixture)
    A = pre.type_constraints() + spec.inv_all(pre) + H.local_nets(pre, fx)
    A = [B(a) for a in A if a is not True]
    paths = H.enumerate_paths(u, fx)
    W = [p for p in paths if u.cls_of(p[-1])[0] == "Wire"]
    P = [p for p in paths if u.cls_of(p[-1])[0] == "InnerPin"]
    out = []
    for start in P:
        pin_slot = u.cls_of(start[-1])[1]
        holder = tuple(start[:-2])
        for sel, sel_name in ((Selection.INSIDE, "INSIDE"), (Selection.OUTSIDE, "OUTSIDE")):
            name = "C12/get_hwires(hpin,%s){%s}/from=%s" % (sel_name, fixture, "/".join(str(x) for x in start))
            heap = pre.copy()
            ctx = Ctx(heap, M.REAL)
            M.listeners_none(ctx)
            ctx.loop_bound = 8
            H.install_hrefs(ctx, u, fx)
            fr = Frame(None, True, {})
            keep_all = lambda x: True
            ctx.natives[keep_all] = lambda c, f, a, k: True
            try:
                res = call_function(ctx, fr, ghw._get_hwires, [SList(1, [start]), sel, ("*",), False, True, False, keep_all])
            except Unsupported as e:
                out.append(result(name, INCONCLUSIVE, "E1/symheap", detail="Unsupported: %s" % e, wall_s=time.time() - t0))
                continue
            cs, nodup = [], []
            for b in W:
                wslot = b[-1]
                if sel is Selection.INSIDE:
                    want = EQ(pre.sc[("InnerPin", "_wire")][pin_slot], wslot) if tuple(b[:-2]) == holder else False
                else:
                    want = False
                    if len(holder) > 1 and tuple(b[:-2]) == holder[:-1]:
                        inst = u.cls_of(holder[-1])[1]
                        o = pre.pinmap[inst][pin_slot]
                        if o != NONE_ID:
                            want = EQ(pre.sc[("OuterPin", "_wire")][u.cls_of(o)[1]], wslot)
                bid = ATOMS.intern(b)
                hits = [AND(present(res, k), EQ(to_atom(res.el[k]).t, bid)) for k in range(res.cap) if res.el[k] is not None]
                member = OR(*hits)
                cs.append(EQ(member, want) if (is_sym(member) or is_sym(want)) else member == want)
                for x in range(len(hits)):
                    for y in range(x):
                        nodup.append(NOT(AND(hits[x], hits[y])))
            funcs = sorted(fn_ident(f) for f in ctx.funcs_seen)
            bounds = dict(u.describe(), fixture=fixture, start=list(start), selection=sel_name)
            ok = [B(NOT(ctx.bound)), B(NOT(ctx.exc))]
            tw = {"returns": M.check(A, AND(NOT(ctx.exc), NOT(ctx.bound)), 300000)[0]}
            if tw["returns"] != "sat":
                out.append(result(name, VACUOUS if tw["returns"] == "unsat" else INCONCLUSIVE, "E1/symheap", twins=tw,
                                  bounds=bounds, detail="normal return not shown reachable (%s)" % tw["returns"]))
                continue
            for g, goal in (("exactly-the-wire-on-that-side", NOT(AND(*(cs + nodup)))), ("never-raises", None)):
                oname = name + "/" + g
                if goal is None:
                    st, dt, mdl = M.check(A + [B(NOT(ctx.bound))], ctx.exc, timeout_ms)
                else:
                    st, dt, mdl = M.check(A + ok, goal, timeout_ms)
                if st == "unsat":
                    out.append(result(oname, DISCHARGED, "E1/symheap", queries=1, solver_s=dt, twins=tw, bounds=bounds,
                                      functions=funcs, detail="unsat", wall_s=time.time() - t0, paths=1))
                elif st != "sat":
                    out.append(result(oname, INCONCLUSIVE, "E1/symheap", detail="solver: %s" % st, bounds=bounds))
                else:
                    state = replay.heap_to_state(pre, mdl)
                    rp = {"engine": "E1", "property": "C12", "obligation": oname, "kind": "selection", "state": state,
                          "start": list(start), "fixture": fixture, "selection": sel_name}
                    try:
                        viol, txt = replay_selection(rp)
                    except Exception:
                        viol, txt = False, "replay crashed: " + traceback.format_exc()[-400:]
                    out.append(result(oname, VIOLATED if viol else ERROR, "E1/symheap", queries=1, solver_s=dt, twins=tw,
                                      bounds=bounds, functions=funcs, replay=rp if viol else None,
                                      detail=txt if viol else "counterexample did not reproduce: " + txt,
                                      wall_s=time.time() - t0))
    return out


def replay_selection(rp):
    import spydrnet as sdn
    from spydrnet.util.hierarchical_reference import HRef
    with replay.listener_config("none"):
        objs = replay.build(rp["state"])
        built, _ = replay.abstract(objs)
        diffs = replay.states_equal(rp["state"], built)
        if diffs:
            return False, "built state differs from the model: " + "; ".join(diffs[:3])
        seq = [objs[g] for g in rp["start"]]
        start = HRef.from_sequence(seq)
        got = [tuple(id(x) for x in _seq(h)) for h in sdn.get_hwires(start, selection=rp["selection"])]
        holder, pin = seq[:-2], seq[-1]
        want = []
        if rp["selection"] == "INSIDE":
            if pin.wire is not None:
                want.append(tuple(id(x) for x in holder + [pin.wire.cable, pin.wire]))
        elif len(holder) > 1:
            op = holder[-1].pins[pin]
            if op.wire is not None:
                want.append(tuple(id(x) for x in holder[:-1] + [op.wire.cable, op.wire]))
        return sorted(got) != sorted(want), "get_hwires(hierarchical pin, %s) returned %d wires, expected %d" % (
            rp["selection"], len(got), len(want))
