"""Worker-side job functions of engine E1 (one process each, see vf.core.run_jobs)."""
import json
import os
import time
import traceback

import z3
from vf.core import (result, DISCHARGED, VIOLATED, INCONCLUSIVE, VACUOUS, ERROR, KNOWN, fn_ident,
                     findings_for)
from vf.e1.sym import (Ref, SInt, SBool, SAtom, ATOMS, NONE_ID, is_sym, AND, OR, NOT, EQ, NE, B,
                       Unsupported, ITE, LT, IMPLIES)
from vf.e1.heap import SList
from vf.e1.vals import SOpt
from vf.e1 import mutators as M
from vf.e1 import spec, replay


def arg_json(a, model):
    mv = lambda t: replay.mval(model, t)
    if a is None:
        return ["val", None]
    if isinstance(a, Ref):
        return ["ref", mv(a.t)]
    if isinstance(a, SOpt):
        return ["val", None if mv(a.isnone) else mv(a.val.t)]
    if isinstance(a, SBool):
        return ["val", bool(mv(a.t))]
    if isinstance(a, SInt):
        return ["val", mv(a.t)]
    if isinstance(a, SAtom):
        return ["val", ATOMS.vals[mv(a.t)]]
    if isinstance(a, tuple) and a and a[0] == "seq":
        _, sl, is_set = a
        n = mv(sl.len)
        ids = [mv(e.t) for e in sl.el[:n]]
        return ["set" if mv(is_set) else "list", ids]
    return ["val", a]


class FindingEnv:
    """vocabulary for known-finding predicates (evaluated to z3 terms over the pre-state)"""

    def __init__(self, run):
        self.run = run
        self.pre = run["pre"]
        self.u = self.pre.u

    def field(self, t, cls, f):
        from vf.e1.sym import ite_chain
        return ite_chain(t, self.u.ids(cls), self.pre.sc[(cls, f)], NONE_ID)

    def has_refs(self, dt):
        u = self.u
        return OR(*[AND(EQ(dt, u.gid("Definition", d)), self.pre.refs[d][i])
                    for d in range(u.n["Definition"]) for i in range(u.n["Instance"])])

    def isin(self, t, cls):
        return self.u.isin(t, cls)

    def stored(self, t):
        u = self.u
        return OR(*[AND(EQ(t, u.gid("OuterPin", o)), spec.stored(self.pre, o))
                    for o in range(u.n["OuterPin"])])

    def namespace(self):
        run = self.run
        ns = dict(field=self.field, has_refs=self.has_refs, isin=self.isin, stored=self.stored,
                  AND=AND, OR=OR, NOT=NOT, EQ=EQ, NE=NE, NONE=NONE_ID, self=run["self_ref"].t)
        raw = []
        for a in run["args"]:
            if isinstance(a, Ref):
                raw.append(a.t)
            elif isinstance(a, SOpt):
                raw.append(a)
            elif isinstance(a, (SInt, SBool, SAtom)):
                raw.append(a.t)
            elif isinstance(a, tuple) and a and a[0] == "seq":
                raw.append(a[1])
            else:
                raw.append(a)
        ns["arg"] = raw
        ns["kw"] = {k: (v.t if hasattr(v, "t") else v) for k, v in run["kwargs"].items()}

        def any_elem(sl, pred):
            return OR(*[AND(LT(k, sl.len), pred(sl.el[k].t)) for k in range(sl.cap)])
        ns["any_elem"] = any_elem
        return ns


def step_job(prop, cls, method, doms, kwdoms, tier, listeners, want, name_prefix, cube=None,
             timeout_ms=120000, part=None, shape=None, shape_name="", profile=None):
    """want: which assertion families to discharge: 'I1','I2','I3','types','frame'
    shape/profile: optional shape-concrete universe (containment fixed by the job, links symbolic)"""
    t_all = time.time()
    ns_policy = listeners.split(":")[1] if listeners.startswith("manager:") else None
    u, p = M.universe(tier, cls, method, ns_policy, profile=profile)
    doms = [tuple(d) if isinstance(d, list) else d for d in _detuple(doms)]
    kwdoms = {k: _detuple(v) for k, v in (kwdoms or {}).items()}
    prep = M.listeners_manager(ns_policy) if ns_policy else \
        {"none": M.listeners_none, "recorder": M.listeners_recorder}[listeners]
    base_name = "%s/%s.%s[%s]%s" % (name_prefix, cls, method, listeners,
                                    "{shape=%s}" % shape_name if shape_name else "")
    try:
        run = M.run_mutator(u, p["seq"], cls, method, doms, kwdoms, prep=prep, ns_policy=ns_policy,
                            shape=shape_from_json(shape))
    except Unsupported as e:
        return [result(base_name, INCONCLUSIVE, "E1/symheap", detail="Unsupported: %s" % e,
                       wall_s=time.time() - t_all)]
    ctx = run["ctx"]
    A = list(run["assumptions"])
    if cube:
        for k, v in cube.items():
            if k.startswith("*"):
                k = [n for n in run["ab"].vars if n.endswith(k[1:])][0]
            A.append(run["ab"].vars[k] == v)
    funcs = sorted(fn_ident(f) for f in ctx.funcs_seen)
    bounds = dict(u.describe(), profile=p["profile"], seq_len=p["seq"], listeners=listeners, tier=tier, cube=cube or {},
                  shape=shape or "symbolic containment")
    ok_path = B(NOT(ctx.bound))
    # reachability twins
    tw = {}
    tq = 0
    for nm, goal in (("pre_sat", True), ("returns_normally", NOT(ctx.exc)),
                     ("refusal_reachable", AND(ctx.exc, NOT(ctx.bound)))):
        st, dt, _ = M.check(A, goal, 60000)
        tw[nm] = st
        tq += 1
    out = []
    if tw["pre_sat"] != "sat" or (tw["returns_normally"] != "sat" and tw["refusal_reachable"] != "sat"):
        return [result(base_name, VACUOUS, "E1/symheap", twins=tw, bounds=bounds, functions=funcs,
                       queries=tq, detail="reachability twin failed", wall_s=time.time() - t_all)]
    groups = {}
    inv = spec.inv_groups(run["post"])
    for g, cs in inv.items():
        fam = g.split(":")[0]
        if fam in want and cs:
            groups[g] = ("inv", [ok_path], NOT(AND(*cs)))
    if "frame" in want and tw["refusal_reachable"] == "sat":
        for g, cs in spec.frame_groups(run["pre"], run["post"]).items():
            groups[g] = ("frame", [ok_path, B(ctx.exc)], NOT(AND(*cs)))
        if ns_policy:
            from vf.e1 import nsmodel as NS
            for g, cs in NS.frame(run["pre"], run["post"]).items():
                groups[g] = ("frame", [ok_path, B(ctx.exc)], NOT(AND(*cs)))
    if "I4" in want and ns_policy:
        from vf.e1 import nsmodel as NS
        for g, cs in NS.i4(run["post"], ns_policy).items():
            groups[g] = ("inv", [ok_path], NOT(AND(*cs)))
    if "perm" in want and method.startswith("set:") and method[4:] in PERM_FIELDS.get(cls, {}):
        groups["perm:%s.%s" % (cls, method[4:])] = ("perm", [ok_path], NOT(perm_goal(run, cls, method[4:])))
    if listeners == "recorder" and ({"mirror", "before", "phantom"} & set(want)):
        from vf.e1 import events as EV
        evs = ctx.events
        if "mirror" in want:
            mir = EV.Mirror(run["pre"])
            for (g_, kind_, args_, snap_) in evs:
                mir.apply(g_, kind_, args_, snap_)
            skip_outer = (cls, method) == ("Instance", "set:reference")
            for g, cs in EV.mirror_groups(mir, run["post"], skip_outer).items():
                groups[g] = ("mirror", [ok_path, B(NOT(ctx.exc))], NOT(AND(*cs)))
        if "before" in want:
            cs = EV.before_clauses(evs)
            if cs:
                groups["before:announced-change-not-yet-visible"] = ("before", [ok_path], NOT(AND(*cs)))
        if "phantom" in want and tw["refusal_reachable"] == "sat":
            emitted = OR(*[g_ for (g_, k_, a_, s_) in evs if not k_.startswith("create_")])
            groups["phantom:no-announcement-for-a-refused-change"] = (
                "phantom", [ok_path, B(ctx.exc)], emitted)
    if getattr(ctx, "impossible", None):
        groups["model:impossible-combinations-unreachable"] = (
            "inv", [], OR(*[c for c, _ in ctx.impossible]))
    env = FindingEnv(run).namespace()
    if part:
        keys = sorted(groups)
        groups = {g: groups[g] for j, g in enumerate(keys) if j % part[1] == part[0]}
    for g, (kind, extra, goal) in groups.items():
        oname = "%s/%s" % (base_name, g)
        known = findings_for(prop, oname)
        excl = []
        nq, ts = 0, 0.0
        status, detail, cex, rp = None, "", None, None
        hits = []
        for rnd in range(6):
            st, dt, mdl = M.check(A + extra + excl, goal, timeout_ms)
            nq += 1
            ts += dt
            if st == "unsat":
                status = DISCHARGED
                detail = "unsat" + (" after excluding %d known finding(s)" % len(excl) if excl else "")
                break
            if st != "sat":
                status, detail = INCONCLUSIVE, "solver answered %s after %.0fs" % (st, dt)
                break
            # counterexample: build replay, run it on the real code
            rp = make_replay(prop, oname, run, mdl, cls, method, listeners, kind, g, tier)
            try:
                viol, txt = replay.run_replay(rp)
            except Exception:
                viol, txt = False, "replay crashed: " + traceback.format_exc()[-600:]
            matched = None
            for f in known:
                try:
                    pred = eval(f["match"], dict(env))
                    if replay.mval(mdl, B(pred)) is True:
                        matched = (f, pred)
                        break
                except Exception as e:
                    detail = "finding predicate error: %s" % e
            if not viol:
                status = ERROR
                detail = "counterexample did not reproduce on the real code: %s | call %s" % (
                    txt, json.dumps(rp["call"]))
                break
            if matched is not None:
                hits.append((matched[0], txt, rp["call"]))
                excl.append(B(NOT(matched[1])))
                continue
            status, cex = VIOLATED, rp["call"]
            detail = txt
            break
        else:
            status, detail = ERROR, "too many exclusion rounds"
        for f, txt, call in hits[:1]:
            out.append(result(oname + "#" + f["id"], KNOWN, "E1/symheap", finding=f["id"],
                              detail="%s (e.g. %s)" % (f["what"], txt[:200]), cex=call, queries=1,
                              bounds=bounds, functions=funcs))
        out.append(result(oname, status, "E1/symheap", queries=nq + tq, solver_s=ts, twins=tw,
                          bounds=bounds, functions=funcs, detail=detail, cex=cex,
                          replay=rp if status == VIOLATED else None, paths=1,
                          wall_s=time.time() - t_all))
        tq = 0
    if ctx.bound is not False and (not part or part[0] == 0):
        st, dt, _ = M.check(A, ctx.bound, 30000)
        out.append(result(base_name + "/bound-reached", DISCHARGED if st in ("sat", "unsat") else INCONCLUSIVE,
                          "E1/symheap", queries=1, solver_s=dt, bounds=bounds,
                          detail="capacity/unwinding bound reachable: %s (those pre-states are outside "
                                 "the claim): %s" % (st, sorted(set(ctx.bound_why))[:3])))
    return out


def _detuple(x):
    if isinstance(x, list):
        return tuple(_detuple(y) for y in x)
    return x


PERM_FIELDS = {"Wire": {"pins": "_pins"}, "Cable": {"wires": "_wires"}, "Port": {"pins": "_pins"},
               "Definition": {"ports": "_ports", "cables": "_cables", "children": "_children"},
               "Library": {"definitions": "_definitions"}, "Netlist": {"libraries": "_libraries"}}


def perm_goal(run, cls, prop_name):
    """the reorder setter only permutes: same length, same members as object identities"""
    pre, post, u = run["pre"], run["post"], run["pre"].u
    f = PERM_FIELDS[cls][prop_name]
    cs = []
    for i in range(u.live.get(cls, 0)):
        (l0, e0), (l1, e1) = pre.ls[(cls, f)][i], post.ls[(cls, f)][i]
        cs.append(EQ(l0, l1))
        for k in range(len(e0)):
            cs.append(IMPLIES(LT(k, l0), OR(*[AND(LT(j, l1), EQ(e0[k], e1[j])) for j in range(len(e1))])))
            for j in range(k):
                cs.append(IMPLIES(LT(k, l1), NE(e1[j], e1[k])))
    return AND(*cs)


def make_replay(prop, oname, run, mdl, cls, method, listeners, kind, group, tier):
    st = replay.heap_to_state(run["pre"], mdl)
    call = {"self": replay.mval(mdl, run["self_ref"].t), "method": method,
            "args": [arg_json(a, mdl) for a in run["args"]],
            "kwargs": {k: arg_json(a, mdl) for k, a in run["kwargs"].items()}}
    return {"engine": "E1", "property": prop, "obligation": oname, "state": st, "call": call,
            "listeners": listeners, "tier": tier,
            "check": {"kind": kind, "group": group,
                      "skip_outer": (cls, method) == ("Instance", "set:reference"),
                      "field": PERM_FIELDS.get(cls, {}).get(method[4:]) if kind == "perm" else None}}


def validation_job(prop, seed, trials, budget_s):
    """translator validation: the interpreter vs the real classes on random concrete steps"""
    from vf.e1 import validate
    t0 = time.time()
    stats, problems, sample = validate.validate(seed, trials, budget_s)
    bad = stats["mismatch"] + stats["unsupported"]
    return [result("%s/translator-validation" % prop, ERROR if bad else DISCHARGED, "E1/symheap",
                   validated=stats["ok"], queries=0, wall_s=time.time() - t0,
                   detail=("interpreter and real code DISAGREE: %s" % problems) if bad else
                   "interpreter == real code on %d random concrete steps (%d skipped); e.g. %s" % (
                       stats["ok"], stats["skip"], sample[:2]),
                   bounds={"seed": seed, "trials": trials})]


# ---- C07 ---------------------------------------------------------------------------------------
CLONE_U = {
    "small": dict(Netlist=1, Library=1, Definition=2, Port=2, Cable=1, Wire=2, Instance=2, InnerPin=2, OuterPin=4),
    "Definition": dict(Netlist=1, Library=1, Definition=2, Port=2, Cable=1, Wire=2, Instance=2, InnerPin=2, OuterPin=4),
    "Library": dict(Netlist=1, Library=2, Definition=2, Port=1, Cable=1, Wire=1, Instance=2, InnerPin=1, OuterPin=2),
    "Netlist": dict(Netlist=1, Library=1, Definition=2, Port=1, Cable=1, Wire=1, Instance=2, InnerPin=1, OuterPin=2),
}


def shape_from_json(sh):
    return {(k.split("/")[0], int(k.split("/")[1]), k.split("/")[2]): v for k, v in (sh or {}).items()} \
        if sh is not None else None


def clone_job(root_cls, tier, part=None, timeout_ms=180000, self_slot=None, shape=None, shape_name=""):
    from vf.e1 import clonespec
    from vf.e1.heap import Universe
    t_all = time.time()
    live = dict(CLONE_U.get(root_cls, CLONE_U["small"]))
    if tier == "thorough" and root_cls in ("Library", "Netlist"):
        live.update(Port=2, InnerPin=2, OuterPin=4, Wire=2)
    u = Universe(live, dict(live), 2)
    base_name = "C07/%s.clone%s%s" % (root_cls, "" if self_slot is None else "{root=slot%d}" % self_slot,
                                      "{shape=%s}" % shape_name if shape_name else "")
    try:
        run = M.run_mutator(u, 1, root_cls, "clone", [], {}, prep=M.listeners_none, self_slot=self_slot,
                            shape=shape_from_json(shape))
    except Unsupported as e:
        return [result(base_name, INCONCLUSIVE, "E1/symheap", detail="Unsupported: %s" % e)]
    ctx = run["ctx"]
    A = list(run["assumptions"])
    funcs = sorted(fn_ident(f) for f in ctx.funcs_seen)
    bounds = dict(u.describe(), root=root_cls, tier=tier, shape=shape or "symbolic containment")
    ok = [B(NOT(ctx.bound)), B(NOT(ctx.exc))]
    tw = {"pre_sat": M.check(A, True, 60000)[0], "returns_normally": M.check(A, NOT(ctx.exc), 60000)[0]}
    if tw["returns_normally"] != "sat":
        return [result(base_name, VACUOUS if tw["returns_normally"] == "unsat" else INCONCLUSIVE,
                       "E1/symheap", twins=tw, bounds=bounds, detail="normal return not shown reachable")]
    memo = ctx.created_dicts[0]
    from vf.e1.vals import raw_ref
    groups = {}
    for g, cs in clonespec.clone_groups(run["pre"], run["post"], root_cls, run["self_ref"].t,
                                        raw_ref(run["ret"]), memo, root_cls == "Netlist").items():
        groups[g] = ("clone", ok, NOT(AND(*cs)))
    for g, cs in spec.inv_groups(run["post"]).items():
        if cs:
            groups["clone:well-formed-afterwards/" + g] = ("inv", ok, NOT(AND(*cs)))
    keys = sorted(groups)
    if part:
        keys = [k for j, k in enumerate(keys) if j % part[1] == part[0]]
    out = []
    for g in keys:
        kind, extra, goal = groups[g]
        oname = "%s/%s" % (base_name, g)
        known = findings_for("C07", oname)
        excl, nq, ts, hits = [], 0, 0.0, []
        status, detail, cex, rp = None, "", None, None
        env = FindingEnv(run).namespace()
        for rnd in range(5):
            st, dt, mdl = M.check(A + extra + excl, goal, timeout_ms)
            nq += 1
            ts += dt
            if st == "unsat":
                status, detail = DISCHARGED, "unsat" + (" after excluding known finding(s)" if excl else "")
                break
            if st != "sat":
                status, detail = INCONCLUSIVE, "solver answered %s after %.0fs" % (st, dt)
                break
            rp = make_replay("C07", oname, run, mdl, root_cls, "clone", "none", "clone", g, tier)
            rp["check"]["whole_netlist"] = root_cls == "Netlist"
            try:
                viol, txt = replay.run_replay(rp)
            except Exception:
                viol, txt = False, "replay crashed: " + traceback.format_exc()[-500:]
            matched = None
            for f in known:
                try:
                    pred = eval(f["match"], dict(env))
                    if replay.mval(mdl, B(pred)) is True:
                        matched = (f, pred)
                        break
                except Exception as e:
                    detail = "finding predicate error: %s" % e
            if not viol:
                status, detail = ERROR, "counterexample did not reproduce on the real code: %s" % txt
                break
            if matched:
                hits.append((matched[0], txt))
                excl.append(B(NOT(matched[1])))
                continue
            status, cex, detail = VIOLATED, rp["call"], txt
            break
        else:
            status, detail = ERROR, "too many exclusion rounds"
        for f, txt in hits[:1]:
            out.append(result(oname + "#" + f["id"], KNOWN, "E1/symheap", finding=f["id"],
                              detail="%s (e.g. %s)" % (f["what"], txt[:200]), queries=1, bounds=bounds))
        out.append(result(oname, status, "E1/symheap", queries=nq, solver_s=ts, twins=tw, bounds=bounds,
                          functions=funcs, detail=detail, cex=cex, replay=rp if status == VIOLATED else None,
                          paths=1, wall_s=time.time() - t_all))
    return out
