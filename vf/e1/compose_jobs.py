"""C16: writers on hierarchy-concrete fixtures with symbolic connections / data: non-interference (frame) and
repeatability (two writer objects, same sequence of written texts).  Text is kept as ropes (vals.SText)."""
import time
import traceback

import z3
from vf.core import result, DISCHARGED, VIOLATED, INCONCLUSIVE, VACUOUS, ERROR, fn_ident
from vf.e1.sym import (Ref, SAtom, ATOMS, NONE_ID, is_sym, ITE, AND, OR, NOT, EQ, NE, LT, B, IMPLIES, Unsupported, mkbool)
from vf.e1.heap import Universe, FCE
from vf.e1.vals import Local, text_eq
from vf.e1.interp import Ctx, Frame, call_function, live
from vf.e1 import mutators as M, spec, replay, hier as H

NAMES = {"Netlist": ["design"], "Library": ["work", "hdi_primitives"], "Definition": ["TOP", "SUB", "LEAF"],
         "Port": ["a", "A", "I", "O"], "Cable": ["n", "m$", "x"], "Instance": ["top", "u1", "g", "l0"]}
TYPES = ["EBLIF.subckt", "EBLIF.gate", "EBLIF.other", "EBLIF.names", "EBLIF.latch"]


class _Sink:
    """file object stand-in"""


class _FixedClock:
    """datetime stand-in: the clock is outside the claim (the timeStamp line is excluded by the property)"""

    @staticmethod
    def now():
        return _FixedClock()

    def strftime(self, fmt):
        return "2026 01 01 00 00 00"


def eblif_compose_job(tier, tags=(None, None, None), timeout_ms=300000, which="eblif", pfx="s", raw=False, fixture="eblif"):
    """EBLIFComposer.run(netlist, file) twice (two composer objects built by the real __init__) on the fixture
    'eblif': the netlist is left exactly as it was (every field, every data entry), both runs write the same
    sequence of texts, nothing raises -- for every connection pattern, every EBLIF.type tagging (absent included),
    every port direction and both option flags."""
    from spydrnet.composers.eblif.eblif_composer import EBLIFComposer
    from spydrnet.composers.verilog.composer import Composer as VerilogComposer
    from spydrnet.composers.edif.composer import ComposeEdif
    t0 = time.time()
    if which == "eblif":
        name = "C16/EBLIFComposer.run{eblif,tags=%s}" % ",".join("-" if t is None else t.split(".")[1] for t in tags)
    else:
        name = "C16/%s.run{eblif-fixture}" % {"verilog": "verilog.Composer", "edif": "ComposeEdif"}[which]
    fxd = H.FIXTURES[fixture]
    atoms = tuple(sorted({n for v in NAMES.values() for n in v})) + tuple(TYPES)
    caps = {(P, lst): len(kids) for (P, p_, lst), kids in fxd["shape"].items() if len(kids) > 3}
    # (the Verilog writer allocates a scratch Cable() per concatenation it writes)
    keys = (".NAME", "EBLIF.type") + (("EDIF.identifier", "EDIF.rename") if which == "edif" else ())
    u = Universe(fxd["live"], dict(Cable=16) if which == "verilog" else {}, 3, list_caps=caps,
                 keys=keys, atoms=atoms + ((True,) if which == "edif" else ()))
    u, pre, fx = H.build(fixture, pfx=pfx, u=u)
    # bundles of more than one item are arrays based at 0 (as a reader produces them)
    for c_, lst_ in ((("Port", "_pins"), ("Cable", "_wires")) if raw else ()):
        for i_ in range(u.live[c_]):
            if len(fxd["shape"].get((c_, i_, lst_), [])) > 1:
                pre.sc[(c_, "_is_scalar")][i_] = False
            pre.sc[(c_, "_lower_index")][i_] = 0
            pre.sc[(c_, "_is_downto")][i_] = True
    kn, kt = u.keys.index(".NAME"), u.keys.index("EBLIF.type")
    A = []
    for c in FCE:
        for i in range(u.live.get(c, 0)):
            pre.data[c][i][kn] = (True, ATOMS.intern(NAMES[c][i]))
            for extra_key in range(2, len(u.keys)):
                pre.data[c][i][extra_key] = (False, 0)        # never written to EDIF before: no identifiers yet
            if c != "Instance":
                pre.data[c][i][kt] = (False, 0)
            else:
                pr, v = pre.data[c][i][kt]
                # the EBLIF.type tag of every instance is fixed by the job (cube split over taggings; with symbolic
                # tags the k-th instance of a category is a symbolic object and every query under it forks)
                t_ = None if i == 0 else tags[i - 1]
                pre.data[c][i][kt] = (False, 0) if t_ is None else (True, ATOMS.intern(t_))
    # port directions as an EBLIF reader sets them: LEAF.I input, LEAF.O output, model ports inputs
    from spydrnet.ir.port import Port as _P
    dirs = {0: _P.Direction.IN, 1: _P.Direction.IN, 2: _P.Direction.IN, 3: _P.Direction.OUT}     # a, A, I: in; O: out
    for p_, d_ in dirs.items():
        pre.sc[("Port", "_direction")][p_] = [x for x in u.dir_ids if ATOMS.vals[x] is d_][0]
    if True:
        if True:
            if True:
                pass
    heap = pre.copy()
    ctx = Ctx(heap, M.REAL)
    M.listeners_none(ctx)
    ctx.globals_over[("spydrnet.global_state.global_service", "_registered_lookups")] = {}
    ctx.loop_bound = 12
    ctx.text_ropes = True
    H.install_hrefs(ctx, u, fx)
    fr = Frame(None, True, {})
    A = pre.type_constraints() + spec.inv_all(pre) + H.local_nets(pre, fx) + A
    A = [B(a) for a in A if a is not True]
    ctx.path_assumptions = list(A)
    ctx.prune_infeasible_raises = True
    events = []
    ctx.stubs[EBLIFComposer.prepare_file] = lambda c, f, a, k: Local(_Sink, {})
    ctx.stubs[EBLIFComposer.write_out] = lambda c, f, a, k: events.append((live(c, f), a[1]))
    ctx.stubs[EBLIFComposer.clean_up] = lambda c, f, a, k: None
    _Sink.write = lambda self, text: None
    _Sink.close = lambda self: None
    ctx.stubs[_Sink.write] = lambda c, f, a, k: events.append((live(c, f), a[1]))
    ctx.stubs[_Sink.close] = lambda c, f, a, k: None
    ctx.natives[_Sink] = None
    ctx.local_classes = (_Sink,)
    ctx.interp_prefixes = ("spydrnet", "vf.e1.compose_jobs")

    def open_sink(c, f, a, k):
        a[0].f["file"] = Local(_Sink, {})
    ctx.stubs[VerilogComposer._open_file] = open_sink

    def open_edif(c, f, a, k):
        a[0].f["_output_"] = Local(_Sink, {})
    ctx.stubs[ComposeEdif._open_output_] = open_edif
    ctx.stubs[ComposeEdif._close_output_] = lambda c, f, a, k: None
    import spydrnet.composers.edif.composer as _ce
    ctx.globals_over[("spydrnet.composers.edif.composer", "datetime")] = _FixedClock
    wb, wc = z3.Bool("write_blackbox"), z3.Bool("write_cname")
    dp, sk = z3.Bool("defparam"), z3.Bool("skip_constraints")
    netl = Ref(u.gid("Netlist", 0), ("Netlist",))
    runs = []
    try:
        for r in range(1 if raw else 2):
            n0 = len(events)
            if which == "eblif":
                comp = Local(EBLIFComposer, {})
                call_function(ctx, fr, EBLIFComposer.__init__, [comp, mkbool(wb), mkbool(wc)], owner=EBLIFComposer)
                call_function(ctx, fr, EBLIFComposer.run, [comp, netl, "out.eblif"], owner=EBLIFComposer)
            elif which == "verilog":
                comp = Local(VerilogComposer, {})
                call_function(ctx, fr, VerilogComposer.__init__, [comp, None, mkbool(wb), mkbool(dp), False, mkbool(sk)],
                              owner=VerilogComposer)
                call_function(ctx, fr, VerilogComposer.run, [comp, netl, "out.v"], owner=VerilogComposer)
            elif which == "edif":
                comp = Local(ComposeEdif, {})
                call_function(ctx, fr, ComposeEdif.__init__, [comp], owner=ComposeEdif)
                call_function(ctx, fr, ComposeEdif.run, [comp, netl, "out.edf"], owner=ComposeEdif)
            runs.append(dict(events=events[n0:], heap=heap.copy(), exc=ctx.exc, bound=ctx.bound))
    except Unsupported as e:
        if raw:
            raise
        return [result(name, INCONCLUSIVE, "E1/symheap", detail="Unsupported: %s" % e, wall_s=time.time() - t0)]
    if raw:
        return dict(pre=pre, events=runs[0]["events"], A=A, ctx=ctx, u=u, fx=fx, exc=runs[0]["exc"], bound=runs[0]["bound"],
                    flags=dict(write_blackbox=wb, write_cname=wc, defparam=dp, skip_constraints=sk))
    goals = {}
    if which == "edif":
        # documented side effects of the FIRST EDIF write: libraries / cells reordered by dependency, generated
        # identifiers recorded (EDIF.identifier, EDIF.rename); nothing else may change
        f1 = []
        for g, cs in spec.frame_groups(pre, runs[0]["heap"]).items():
            if g in ("frame:Netlist._libraries", "frame:Library._definitions"):
                continue
            if g.endswith("._data"):
                continue
            f1 += cs
        h1 = runs[0]["heap"]
        for c in FCE:
            for i in range(u.live.get(c, 0)):
                for k_ in (kn, kt):
                    (p0, v0), (p1, v1) = pre.data[c][i][k_], h1.data[c][i][k_]
                    f1 += [EQ(p0, p1), IMPLIES(p0, EQ(v0, v1))]
        for (c, fld, n_) in (("Netlist", "_libraries", u.live["Library"]), ("Library", "_definitions", None)):
            for i in range(u.live[c]):
                (l0, e0), (l1, e1) = pre.ls[(c, fld)][i], h1.ls[(c, fld)][i]
                f1.append(EQ(l0, l1))
                for k_ in range(len(e0)):      # same members (a permutation)
                    f1.append(IMPLIES(LT(k_, l0), OR(*[AND(LT(j, l1), EQ(e1[j], e0[k_])) for j in range(len(e1))])))
    else:
        f1 = [c for g, cs in spec.frame_groups(pre, runs[0]["heap"]).items() for c in cs]
    f2 = [c for g, cs in spec.frame_groups(runs[0]["heap"], runs[1]["heap"]).items() for c in cs]
    goals["first-write-leaves-the-netlist-as-it-was"] = (0, f1)
    goals["second-write-leaves-the-netlist-as-it-was"] = (1, f2)
    e1, e2 = runs[0]["events"], runs[1]["events"]
    if len(e1) != len(e2):
        same = [False]
    else:
        memo = {}
        same = []
        for (g1, t1), (g2, t2) in zip(e1, e2):
            same.append(EQ(g1, g2))
            same.append(IMPLIES(g1, text_eq(t1, t2, memo)))
    goals["second-write-produces-the-same-text"] = (1, same)
    funcs = sorted(fn_ident(f) for f in ctx.funcs_seen)
    bounds = dict(u.describe(), fixture="eblif", write_events=[len(e1), len(e2)],
                  symbolic="connections (net-local), write_blackbox, write_cname", tags=list(tags),
                  stubs=["prepare_file/clean_up: no file", "write_out: records (guard, text rope)"])
    ok = lambda r: [B(NOT(runs[r]["bound"])), B(NOT(runs[r]["exc"]))]
    tw = {"pre_sat": M.check(A, True, 60000)[0],
          "returns": M.check(A, AND(NOT(ctx.exc), NOT(ctx.bound)), 300000)[0],
          "something-is-written-per-instance": M.check(A + ok(1), OR(*[g for g, t in e1[3:]]) if len(e1) > 3 else False, 120000)[0]}
    if any(v != "sat" for v in tw.values()):
        return [result(name, VACUOUS, "E1/symheap", twins=tw, bounds=bounds, detail="reachability twin failed: %s %s" % (
            tw, sorted(set(ctx.bound_why))[:3]))]
    out = []
    for g, spec_ in list(goals.items()) + [("never-raises", None)]:
        oname = name + "/" + g
        if spec_ is None:
            st, dt, mdl = M.check(A + [B(NOT(ctx.bound))], ctx.exc, timeout_ms)
        else:
            r, cs = spec_
            st, dt, mdl = M.check(A + ok(r), NOT(AND(*cs)), timeout_ms)
        if st == "unsat":
            out.append(result(oname, DISCHARGED, "E1/symheap", queries=1, solver_s=dt, twins=tw, bounds=bounds,
                              functions=funcs, detail="unsat", wall_s=time.time() - t0, paths=1))
        elif st != "sat":
            out.append(result(oname, INCONCLUSIVE, "E1/symheap", detail="solver: %s" % st, bounds=bounds))
        else:
            state = replay.heap_to_state(pre, mdl)
            rp = {"engine": "E1", "property": "C16", "obligation": oname, "kind": "eblif_compose", "state": state,
                  "netlist": u.gid("Netlist", 0), "write_blackbox": bool(replay.mval(mdl, wb)),
                  "write_cname": bool(replay.mval(mdl, wc)), "which": which,
                  "defparam": bool(replay.mval(mdl, dp)), "skip_constraints": bool(replay.mval(mdl, sk))}
            try:
                viol, txt = replay_eblif_compose(rp)
            except Exception:
                viol, txt = False, "replay crashed: " + traceback.format_exc()[-400:]
            out.append(result(oname, VIOLATED if viol else ERROR, "E1/symheap", queries=1, solver_s=dt, twins=tw,
                              bounds=bounds, functions=funcs, replay=rp if viol else None,
                              detail=txt if viol else "counterexample did not reproduce: " + txt,
                              wall_s=time.time() - t0))
    return out


def _snapshot(objs):
    snap, _ = replay.abstract(objs)
    return snap


def _edif_norm(text):
    import json
    d = json.loads(text)
    objs = d.get("objects", d)
    for o in objs.values():
        if isinstance(o, dict):
            for k in ("EDIF.identifier", "EDIF.rename"):
                (o.get("_data") or {}).pop(k, None)
            for f in ("_libraries", "_definitions"):
                if isinstance(o.get(f), list):
                    o[f] = sorted(o[f], key=str)
    return json.dumps(d, sort_keys=True, default=str)


def replay_eblif_compose(rp):
    """the real composer, twice, on the real netlist built from the counterexample"""
    import os
    import shutil
    import tempfile
    import json
    from spydrnet.composers.eblif.eblif_composer import EBLIFComposer
    with replay.listener_config("none"):
        objs = replay.build(rp["state"])
        built, _ = replay.abstract(objs)
        diffs = replay.states_equal(rp["state"], built)
        if diffs:
            return False, "built state differs from the model: " + "; ".join(diffs[:3])
        netlist = objs[rp["netlist"]]
        d = tempfile.mkdtemp(prefix="vf_c16_")
        try:
            texts, probs = [], []
            before = json.dumps(_snapshot(objs), sort_keys=True, default=str)
            for k in range(2):
                path = os.path.join(d, "o%d.eblif" % k)
                try:
                    if rp.get("which", "eblif") == "eblif":
                        EBLIFComposer(rp["write_blackbox"], rp["write_cname"]).run(netlist, path)
                    elif rp["which"] == "edif":
                        from spydrnet.composers.edif.composer import ComposeEdif as CE
                        CE().run(netlist, path)
                    elif rp["which"] == "verilog":
                        from spydrnet.composers.verilog.composer import Composer as VC
                        VC(None, rp["write_blackbox"], rp["defparam"], False, rp["skip_constraints"]).run(netlist, path)
                except Exception as e:
                    return True, "compose %d raised %s: %s" % (k + 1, type(e).__name__, str(e)[:80])
                texts.append("\n".join(l for l in open(path).read().split("\n") if "timeStamp" not in l))
                after = json.dumps(_snapshot(objs), sort_keys=True, default=str)
                differs = after != before
                if differs and k == 0 and rp.get("which") == "edif":
                    # documented side effects of the first EDIF write are not differences
                    differs = _edif_norm(before) != _edif_norm(after)
                if differs:
                    edif0 = k == 0 and rp.get("which") == "edif"
                    a, b = json.loads(_edif_norm(before) if edif0 else before), json.loads(_edif_norm(after) if edif0 else after)
                    oa, ob = a.get("objects", a), b.get("objects", b)
                    changed = [g for g in oa if oa[g] != ob.get(g)] if isinstance(oa, dict) else []
                    probs.append("write %d changed the netlist (e.g. object %s: %s -> %s)" % (
                        k + 1, changed[:1], str(oa.get(changed[0]))[:200] if changed else "", str(ob.get(changed[0]))[:200] if changed else ""))
                    before = after
                before = after
            if texts[0] != texts[1]:
                probs.append("the second write differs from the first (%d vs %d characters)" % (len(texts[0]), len(texts[1])))
            return bool(probs), "; ".join(probs)[:600] or "both writes leave the netlist unchanged and agree"
        finally:
            shutil.rmtree(d, ignore_errors=True)


def writer_injective_job(which, tier, tags=("EBLIF.subckt", "EBLIF.gate", "EBLIF.subckt"), timeout_ms=300000, fixture="eblif-bus"):
    """A necessary condition of write-then-read, decided on the WRITER alone: two netlists on the same fixture that
    differ in which pin is on which net are never written as the same text (otherwise no reader could tell them apart).
    The real writer runs on two symbolic connection patterns s and t; if every write event carries equal text, the
    pin->wire relations are equal."""
    t0 = time.time()
    prop = {"edif": "C03", "verilog": "C04", "eblif": "C18"}[which]
    name = "%s/%s-writer{%s}/different-connections-give-different-text" % (prop, which, fixture)
    try:
        r1 = eblif_compose_job(tier, tags=tags, which=which, pfx="s", raw=True, fixture=fixture)
        r2 = eblif_compose_job(tier, tags=tags, which=which, pfx="t", raw=True, fixture=fixture)
    except Unsupported as e:
        return [result(name, INCONCLUSIVE, "E1/symheap", detail="Unsupported: %s" % e, wall_s=time.time() - t0)]
    u, fx = r1["u"], r1["fx"]
    A = list(r1["A"]) + list(r2["A"])
    e1, e2 = r1["events"], r2["events"]
    if len(e1) != len(e2):
        return [result(name, INCONCLUSIVE, "E1/symheap", detail="the two runs differ in the number of write events (%d / %d)" % (
            len(e1), len(e2)))]
    memo, same = {}, []
    for (g1, t1), (g2, t2) in zip(e1, e2):
        same.append(EQ(g1, g2))
        same.append(IMPLIES(g1, text_eq(t1, t2, memo)))
    p1, p2 = r1["pre"], r2["pre"]
    differs = []
    pins = [("OuterPin", o) for o in range(u.live["OuterPin"])]
    if which != "eblif":       # BLIF joins a model port to the net of the same name implicitly: port pins are not written
        pins += [("InnerPin", p) for p in range(u.live["InnerPin"])]
    for c, k in pins:
        differs.append(NE(p1.sc[(c, "_wire")][k], p2.sc[(c, "_wire")][k]))
    if which == "verilog":
        # netlists the Verilog reader can produce: every bit of a module port is joined to a net inside the module (the
        # port's own net, or the nets of a header alias); a port bit left open inside cannot be written in Verilog
        sh = fx["shape"]
        for (P_, d_, lst_), ports in sh.items():
            if P_ == "Definition" and lst_ == "_ports" and sh.get(("Definition", d_, "_cables")):
                for port in ports:
                    for pin in sh.get(("Port", port, "_pins"), []):
                        A += [B(NE(p1.sc[("InnerPin", "_wire")][pin], NONE_ID)), B(NE(p2.sc[("InnerPin", "_wire")][pin], NONE_ID))]
    ok = [B(NOT(r1["exc"])), B(NOT(r1["bound"])), B(NOT(r2["exc"])), B(NOT(r2["bound"]))]
    funcs = sorted(fn_ident(f) for f in r1["ctx"].funcs_seen)
    bounds = dict(u.describe(), fixture=fixture, writer=which, write_events=len(e1), tags=list(tags),
                  compared="pin->wire of every instance pin" + ("" if which == "eblif" else " and every port pin"))
    tw = {"both-return": M.check(A + ok, True, 120000)[0], "texts-can-be-equal": M.check(A + ok, AND(*same), 300000)[0]}
    if any(v != "sat" for v in tw.values()):
        return [result(name, VACUOUS, "E1/symheap", twins=tw, bounds=bounds, detail="reachability twin failed: %s" % tw)]
    extra_results = []
    if which == "edif":
        # completeness of the net section: one (net ...) per wire of every written cell, one (portRef ...) per joined pin
        from vf.e1.sym import ADD
        count = lambda text: _sum([ITE(g_, 1, 0) for g_, t_ in e1 if isinstance(t_, str) and t_ == text])
        n_wires = u.live["Wire"]
        joined = _sum([ITE(NE(p1.sc[(c_, "_wire")][k_], NONE_ID), 1, 0) for c_ in ("InnerPin", "OuterPin") for k_ in range(u.live[c_])])
        goal2 = NOT(AND(EQ(count("net "), n_wires), EQ(count("portref "), joined)))
        st2, dt2, mdl2 = M.check(A + ok, goal2, timeout_ms)
        oname2 = "%s/%s-writer{%s}/one-net-per-wire-one-portRef-per-joined-pin" % (prop, which, fixture)
        if st2 == "unsat":
            extra_results.append(result(oname2, DISCHARGED, "E1/symheap", queries=1, solver_s=dt2, twins=tw, bounds=bounds,
                                        functions=funcs, detail="unsat", wall_s=time.time() - t0, paths=1))
        elif st2 != "sat":
            extra_results.append(result(oname2, INCONCLUSIVE, "E1/symheap", detail="solver: %s" % st2, bounds=bounds))
        else:
            rp2 = {"engine": "E1", "property": prop, "obligation": oname2, "kind": "edif_net_counts",
                   "state": replay.heap_to_state(p1, mdl2), "netlist": u.gid("Netlist", 0)}
            try:
                viol2, txt2 = replay_edif_net_counts(rp2)
            except Exception:
                viol2, txt2 = False, "replay crashed: " + traceback.format_exc()[-400:]
            extra_results.append(result(oname2, VIOLATED if viol2 else ERROR, "E1/symheap", queries=1, solver_s=dt2, twins=tw,
                                        bounds=bounds, functions=funcs, replay=rp2 if viol2 else None,
                                        detail=txt2 if viol2 else "counterexample did not reproduce: " + txt2,
                                        wall_s=time.time() - t0))
    st, dt, mdl = M.check(A + ok, AND(AND(*same), OR(*differs)), timeout_ms)
    if st == "unsat":
        return extra_results + [result(name, DISCHARGED, "E1/symheap", queries=3, solver_s=dt, twins=tw, bounds=bounds, functions=funcs,
                       detail="unsat", wall_s=time.time() - t0, paths=1)]
    if st != "sat":
        return extra_results + [result(name, INCONCLUSIVE, "E1/symheap", detail="solver: %s" % st, bounds=bounds)]
    fl = r1["flags"]
    rp = {"engine": "E1", "property": prop, "obligation": name, "kind": "writer_injective", "which": which,
          "state": replay.heap_to_state(p1, mdl), "state2": replay.heap_to_state(p2, mdl), "netlist": u.gid("Netlist", 0),
          "write_blackbox": bool(replay.mval(mdl, fl["write_blackbox"])), "write_cname": bool(replay.mval(mdl, fl["write_cname"])),
          "defparam": bool(replay.mval(mdl, fl["defparam"])), "skip_constraints": bool(replay.mval(mdl, fl["skip_constraints"]))}
    try:
        viol, txt = replay_writer_injective(rp)
    except Exception:
        viol, txt = False, "replay crashed: " + traceback.format_exc()[-400:]
    return extra_results + [result(name, VIOLATED if viol else ERROR, "E1/symheap", queries=3, solver_s=dt, twins=tw, bounds=bounds,
                   functions=funcs, replay=rp if viol else None,
                   detail=txt if viol else "counterexample did not reproduce: " + txt, wall_s=time.time() - t0)]


def _sum(xs):
    from vf.e1.sym import ADD
    acc = 0
    for x in xs:
        acc = ADD(acc, x)
    return acc


def replay_edif_net_counts(rp):
    """the real EDIF writer on the real netlist: count (net and (portRef in the written file"""
    import os
    import shutil
    import tempfile
    from spydrnet.composers.edif.composer import ComposeEdif as CE
    d = tempfile.mkdtemp(prefix="vf_cnt_")
    try:
        with replay.listener_config("none"):
            objs = replay.build(rp["state"])
            netlist = objs[rp["netlist"]]
            wires = sum(len(c.wires) for l in netlist.libraries for df in l.definitions for c in df.cables)
            joined = sum(len(w.pins) for l in netlist.libraries for df in l.definitions for c in df.cables for w in c.wires)
            path = os.path.join(d, "o.edf")
            CE().run(netlist, path)
            text = open(path).read()
        nets, refs = text.count("(net "), text.count("(portref ")
        bad = nets != wires or refs != joined
        return bad, "the written file has %d nets and %d portRefs, the netlist has %d wires and %d joined pins" % (nets, refs, wires, joined)
    finally:
        shutil.rmtree(d, ignore_errors=True)


def replay_writer_injective(rp):
    """two real netlists, the real writer on each: identical files although a pin sits on different nets"""
    import os
    import shutil
    import tempfile
    from spydrnet.composers.eblif.eblif_composer import EBLIFComposer
    from spydrnet.composers.verilog.composer import Composer as VC
    from spydrnet.composers.edif.composer import ComposeEdif as CE
    d = tempfile.mkdtemp(prefix="vf_inj_")
    try:
        texts, conns = [], []
        with replay.listener_config("none"):
            for k, key in enumerate(("state", "state2")):
                objs = replay.build(rp[key])
                netlist = objs[rp["netlist"]]
                path = os.path.join(d, "o%d" % k)
                if rp["which"] == "eblif":
                    EBLIFComposer(rp["write_blackbox"], rp["write_cname"]).run(netlist, path)
                elif rp["which"] == "verilog":
                    VC(None, rp["write_blackbox"], rp["defparam"], False, rp["skip_constraints"]).run(netlist, path)
                else:
                    CE().run(netlist, path)
                texts.append("\n".join(l for l in open(path).read().split("\n") if "timeStamp" not in l))
                conn = {}
                for g, o in sorted(objs.items()):
                    cls = type(o).__name__
                    if cls == "OuterPin" or (cls == "InnerPin" and rp["which"] != "eblif"):
                        w = o.wire
                        conn[g] = None if w is None else (w.cable.name, list(w.cable.wires).index(w))
                conns.append(conn)
        diff = [g for g in conns[0] if conns[0][g] != conns[1].get(g)]
        bad = texts[0] == texts[1] and bool(diff)
        return bad, ("the %s writer produced IDENTICAL text (%d characters) for two netlists in which pin %s is on %s vs %s" % (
            rp["which"], len(texts[0]), diff[:1], conns[0].get(diff[0]) if diff else None, conns[1].get(diff[0]) if diff else None)
            if bad else "texts %s, connections %s" % ("equal" if texts[0] == texts[1] else "differ", "differ" if diff else "equal"))
    finally:
        shutil.rmtree(d, ignore_errors=True)

