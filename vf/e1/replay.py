"""Counterexample replay for engine E1: model -> concrete pre-state -> built through the public
API -> the real call -> independent plain-Python oracle (vf.e1.wellformed)."""
import contextlib
import json
import traceback

import z3
import spydrnet as sdn
from vf.e1.sym import ATOMS, NONE_ID, is_sym, B
from vf.e1.heap import CLASSES, SCALARS, LISTS, FCE, Universe, Heap
from vf.e1 import wellformed


def mval(model, t):
    if not is_sym(t):
        return t
    v = model.eval(t, model_completion=True)
    if z3.is_true(v):
        return True
    if z3.is_false(v):
        return False
    return v.as_long()


def heap_to_state(h, model=None, live_only=True):
    """concrete picture of a heap (terms evaluated in the model)"""
    u = h.u
    ev = (lambda t: mval(model, t)) if model is not None else (lambda t: t)
    st = {"objects": {}, "universe": {"live": u.live, "fresh": u.fresh, "K": u.K, "keys": u.keys,
                                      "base": u.base}}
    for c in CLASSES:
        n = u.live.get(c, 0) if live_only else ev(h.nxt[c])
        for i in range(n):
            o = {}
            for f in SCALARS[c]:
                v = ev(h.sc[(c, f)][i])
                if SCALARS[c][f] == "enum":
                    v = ATOMS.vals[v].name
                o[f] = v
            for f in LISTS.get(c, {}):
                ln, el = h.ls[(c, f)][i]
                ln = ev(ln)
                o[f] = [ev(e) for e in el[:ln]]
            if c == "Definition":
                o["_references"] = [u.gid("Instance", j) for j in range(u.n["Instance"])
                                    if ev(h.refs[i][j]) is True]
            if c == "Instance":
                o["_pins"] = {str(u.gid("InnerPin", p)): ev(h.pinmap[i][p])
                              for p in range(u.n["InnerPin"]) if ev(h.pinmap[i][p]) != NONE_ID}
            if c in FCE:
                d = {}
                for k, key in enumerate(u.keys):
                    pr, v = h.data[c][i][k]
                    if ev(pr) is True:
                        d[key] = ATOMS.vals[ev(v)]
                o["_data"] = d
            st["objects"][str(u.gid(c, i))] = dict(cls=c, **o)
    return st


@contextlib.contextmanager
def listener_config(kind):
    """run the real code under the listener configuration of the obligation"""
    from spydrnet.global_state import global_callback as gc
    saved = {n: list(getattr(gc, n)) for n in vars(gc) if n.startswith("_container_")}
    from spydrnet.global_state import global_service as gs
    saved_lookups = dict(gs._registered_lookups)
    from spydrnet.plugins import namespace_manager as nm
    saved_default = nm.default
    try:
        if kind in ("none", "recorder"):
            for n in saved:
                getattr(gc, n).clear()
            gs._registered_lookups.clear()
        elif kind.startswith("manager:"):
            nm.default = kind.split(":")[1]
        yield
    finally:
        nm.default = saved_default
        for n, v in saved.items():
            lst = getattr(gc, n)
            lst.clear()
            lst.extend(v)
        gs._registered_lookups.clear()
        gs._registered_lookups.update(saved_lookups)


class NotConstructible(Exception):
    pass


def build(state):
    """construct the pre-state through the public API; returns {gid: object}"""
    objs = {}
    S = {int(g): o for g, o in state["objects"].items()}
    ctor = {c: getattr(sdn, c) for c in CLASSES}
    stored = {}
    for g, o in S.items():
        if o["cls"] == "Instance":
            for p, op in o["_pins"].items():
                stored[op] = (g, int(p))
    for g, o in S.items():
        if o["cls"] != "OuterPin":
            objs[g] = ctor[o["cls"]]()
    for g, o in S.items():
        if o["cls"] in FCE:
            for k, v in o["_data"].items():
                if k == ".NS" and k in objs[g]:
                    continue          # written by the naming plug-in at creation
                objs[g][k] = v
        if o["cls"] in ("Port", "Cable"):
            objs[g].is_downto = o["_is_downto"]
            objs[g].is_scalar = o["_is_scalar"]
            objs[g].lower_index = o["_lower_index"]
        if o["cls"] == "Port":
            objs[g].direction = getattr(sdn.Port.Direction, o["_direction"])
    adders = {("Port", "_pins"): "add_pin", ("Cable", "_wires"): "add_wire",
              ("Definition", "_ports"): "add_port", ("Definition", "_cables"): "add_cable",
              ("Definition", "_children"): "add_child", ("Library", "_definitions"): "add_definition",
              ("Netlist", "_libraries"): "add_library"}
    for (c, f), meth in adders.items():
        for g, o in S.items():
            if o["cls"] == c:
                for child in o[f]:
                    getattr(objs[g], meth)(objs[child])
    for g, o in S.items():
        if o["cls"] == "Instance" and o["_reference"] != NONE_ID:
            objs[g].reference = objs[o["_reference"]]
    for g, o in S.items():
        if o["cls"] == "OuterPin":
            if g in stored:
                i, p = stored[g]
                if p not in objs or objs[p] not in objs[i].pins:
                    raise NotConstructible("stored outer pin %d has no inner pin entry" % g)
                objs[g] = objs[i].pins[objs[p]]
            else:
                inst = objs.get(o["_instance"]) if o["_instance"] != NONE_ID else None
                ip = objs.get(o["_inner_pin"]) if o["_inner_pin"] != NONE_ID else None
                objs[g] = sdn.OuterPin(inst, ip)
    for g, o in S.items():
        if o["cls"] == "Wire":
            for p in o["_pins"]:
                objs[g].connect_pin(objs[p])
    for g, o in S.items():
        if o["cls"] == "OuterPin" and g not in stored and o["_wire"] != NONE_ID:
            objs[g]._wire = objs[o["_wire"]]      # a proxy that was used in a connect call
    for g, o in S.items():
        if o["cls"] == "Netlist" and o["_top_instance"] != NONE_ID:
            objs[g].top_instance = objs[o["_top_instance"]]
    for g, o in S.items():
        if o["cls"] == "Instance":
            objs[g].is_top_instance = o["_is_top_instance"]
    return objs


def abstract(objs):
    """read back the private state of the real objects: {gid: fields} with object identities
    mapped to gids (unknown objects get negative ids in discovery order)"""
    ids = {id(o): g for g, o in objs.items()}
    extra = {}

    def gid(o):
        if o is None:
            return NONE_ID
        if id(o) not in ids:
            ids[id(o)] = -2 - len(extra)
            extra[ids[id(o)]] = o
        return ids[id(o)]
    out = {}
    for g, o in sorted(objs.items()):
        c = type(o).__name__
        d = {"cls": c}
        for f, kind in SCALARS[c].items():
            v = getattr(o, f)
            if isinstance(kind, tuple):
                v = gid(v)
            elif kind == "enum":
                v = v.name
            d[f] = v
        for f in LISTS.get(c, {}):
            d[f] = [gid(x) for x in getattr(o, f)]
        if c == "Definition":
            d["_references"] = sorted(gid(x) for x in o._references)
        if c == "Instance":
            d["_pins"] = {str(gid(k)): gid(v) for k, v in o._pins.items()}
        if c in FCE:
            d["_data"] = dict(o._data)
        out[g] = d
    return out, extra


def ns_snapshot(objs):
    """the naming plug-in's tables as {(parent gid, child type, key kind, name): child gid}"""
    from spydrnet.plugins import namespace_manager as nm
    ids = {id(o): g for g, o in objs.items()}
    out = {}
    for g, o in objs.items():
        try:
            ns = nm.namespaces.get(o)
        except TypeError:
            ns = None
        if ns is None:
            continue
        for kind, table in (("name", getattr(ns, "namespaces", {})), ("edif", getattr(ns, "edif_namespaces", {}))):
            for T, tab in table.items():
                for name, child in tab.items():
                    out["%d/%s/%s/%s" % (g, T.__name__, kind, name)] = ids.get(id(child), "foreign-object")
    return out


def states_equal(model_state, built):
    diffs = []
    for g, o in model_state["objects"].items():
        b = built.get(int(g))
        for k, v in o.items():
            bv = b.get(k)
            if k == "_references":
                v, bv = sorted(v), sorted(bv)
            if k == "_pins":
                pass
            if v != bv:
                diffs.append("%s.%s: model %r built %r" % (g, k, v, bv))
    return diffs


def resolve_arg(a, objs):
    k = a[0]
    if k == "ref":
        return None if a[1] == NONE_ID else objs[a[1]]
    if k == "val":
        return a[1]
    if k == "list":
        return [objs[x] for x in a[1]]
    if k == "set":
        return set(objs[x] for x in a[1])
    raise ValueError(a)


def run_replay(rp):
    """returns (violates, text).  rp: dict(state, call, listeners, check, ...)"""
    with listener_config(rp.get("listeners", "none")):
        try:
            objs = build(rp["state"])
        except NotConstructible as e:
            return False, "pre-state not constructible through the public API: %s" % e
        except Exception as e:
            return False, "pre-state not constructible through the public API: %s: %s" % (
                type(e).__name__, e)
        built, _ = abstract(objs)
        diffs = states_equal(rp["state"], built)
        if diffs:
            return False, "built pre-state differs from the model's pre-state: " + "; ".join(diffs[:5])
        pre_problems = wellformed.problems(objs, rp["check"])
        if pre_problems and rp["check"].get("kind") == "inv":
            return False, "pre-state already violates the oracle: %s" % pre_problems[:3]
        call = rp["call"]
        recv = objs[call["self"]]
        args = [resolve_arg(a, objs) for a in call["args"]]
        kwargs = {k: resolve_arg(a, objs) for k, a in call.get("kwargs", {}).items()}
        before, _ = abstract(objs)
        ns_before = ns_snapshot(objs) if str(rp.get("listeners", "")).startswith("manager:") else None
        raised = None
        lst = None
        if rp.get("listeners") == "recorder":
            lst = wellformed.MirrorListener(wellformed.closure(list(objs.values())))
        retval = None
        try:
            m = call["method"]
            if m == "clone":
                retval = recv.clone()
            elif m.startswith("set:"):
                setattr(recv, m[4:], args[0])
            elif m.startswith("del:"):
                delattr(recv, m[4:])
            else:
                getattr(recv, m)(*args, **kwargs)
        except Exception as e:
            raised = e
        finally:
            if lst is not None:
                lst.deregister_all_listeners()
        after, extra = abstract(objs)
        for g, o in extra.items():
            objs[g] = o
        kind = rp["check"].get("kind")
        if kind == "inv":
            probs = wellformed.problems(objs, rp["check"])
            txt = "%s.%s(%s) %s; oracle: %s" % (
                type(recv).__name__, call["method"], call["args"],
                "raised %s" % type(raised).__name__ if raised else "returned", probs[:4])
            return bool(probs), txt
        if kind == "frame":
            if raised is None:
                return False, "call did not raise on the real code"
            diffs = []
            for g in before:
                if before[g] != after[g]:
                    for k in before[g]:
                        if before[g][k] != after[g][k]:
                            diffs.append("%s#%d.%s: %r -> %r" % (before[g]["cls"], g, k, before[g][k],
                                                                  after[g][k]))
            if ns_before is not None:
                ns_after = ns_snapshot({g: o for g, o in objs.items() if g in before})
                for k in sorted(set(ns_before) | set(ns_after)):
                    if ns_before.get(k) != ns_after.get(k):
                        diffs.append("name table %s: %r -> %r" % (k, ns_before.get(k), ns_after.get(k)))
            txt = "%s.%s(%s) raised %s: %s; state changes: %s" % (
                type(recv).__name__, call["method"], call["args"], type(raised).__name__,
                str(raised)[:80], diffs[:5])
            return bool(diffs), txt
        if kind == "clone":
            if raised is not None:
                return False, "clone raised %s on the real code" % type(raised).__name__
            probs = wellformed.clone_problems(recv, retval, rp["check"].get("whole_netlist", False))
            allo = dict(objs)
            allo[-1000] = retval
            probs += wellformed.c01_problems(wellformed.closure(list(allo.values())))
            probs += wellformed.c02_problems(wellformed.closure(list(allo.values())))
            if not rp["check"].get("whole_netlist", False):
                probs = [p for p in probs]
            chg = []
            for g in before:
                for k in before[g]:
                    if before[g][k] != after[g][k] and k != "_references":
                        chg.append("source %s#%d.%s changed" % (before[g]["cls"], g, k))
            return bool(probs or chg), "%s#%d.clone(): %s" % (type(recv).__name__, call["self"], (probs + chg)[:5])
        if kind in ("mirror", "phantom", "before"):
            how = "raised %s" % type(raised).__name__ if raised else "returned"
            head = "%s.%s(%s) %s; announcements %s" % (type(recv).__name__, call["method"],
                                                         call["args"], how, lst.events)
            if kind == "phantom":
                return bool(raised is not None and lst.events), head
            if kind == "before":
                return bool(lst.not_before), head + "; already in effect when announced: %s" % lst.not_before
            probs = wellformed.mirror_problems(lst, wellformed.closure(list(objs.values())),
                                               skip_outer=rp["check"].get("skip_outer", False))
            return bool(probs), head + "; " + "; ".join(sorted(set(probs))[:4])
        if kind == "perm":
            f = rp["check"]["field"]
            g = call["self"]
            b, a = before[g][f], after[g][f]
            bad = sorted(b) != sorted(a) or len(set(a)) != len(a)
            txt = "%s.%s(%s) %s; %s before %r after %r (negative ids = objects that were not members)" % (
                type(recv).__name__, call["method"], call["args"],
                "raised %s" % type(raised).__name__ if raised else "returned", f, b, a)
            return bad, txt
        return False, "unknown check kind %r" % kind
