"""Hierarchy-concrete universes for the hierarchical queries and transformations (C11, C12, C08, C09).

The instance hierarchy (containment shape, instance references, top instance, pin maps) is fixed per
fixture (cube split over the listed designs); what the solver decides is everything else: which pins
sit on which wires (connections incl. order), names, bundle flags, data.

Hierarchical references are finite in a fixed hierarchy: they are modelled as atoms over the concrete
table of all paths of the elaborated design (class HPath).  HRef.from_parent_and_item is the table
lookup (parent path, item) -> child path."""
import z3
from vf.e1.sym import (Ref, SAtom, ATOMS, NONE_ID, is_sym, ITE, AND, OR, NOT, EQ, NE, LT, IMPLIES, Unsupported)
from vf.e1.heap import Universe, Heap, CLASSES


class HPath(tuple):
    """a hierarchical reference: tuple of global slot ids from the top instance down to the item"""
    __slots__ = ()

    @property
    def parent_path(self):
        return HPath(self[:-1]) if len(self) > 1 else None


INVALID = HPath(("invalid-hierarchical-reference",))


FIXTURES = {
    # TOP(u1:SUB, u2:SUB) ; SUB(l0:LEAF) ; nets: TOP.n , SUB.a_int ; ports: TOP.clk, SUB.A, LEAF.P
    "shared-sub": dict(
        live=dict(Netlist=1, Library=1, Definition=3, Port=3, Cable=2, Wire=2, Instance=4, InnerPin=3, OuterPin=4),
        shape={("Netlist", 0, "_libraries"): [0], ("Library", 0, "_definitions"): [0, 1, 2],
               ("Definition", 0, "_ports"): [0], ("Port", 0, "_pins"): [0],          # TOP.clk
               ("Definition", 1, "_ports"): [1], ("Port", 1, "_pins"): [1],          # SUB.A
               ("Definition", 2, "_ports"): [2], ("Port", 2, "_pins"): [2],          # LEAF.P
               ("Definition", 0, "_cables"): [0], ("Cable", 0, "_wires"): [0],       # TOP.n
               ("Definition", 1, "_cables"): [1], ("Cable", 1, "_wires"): [1],       # SUB.a_int
               ("Definition", 0, "_children"): [1, 2], ("Definition", 1, "_children"): [3]},
        refs={0: 0, 1: 1, 2: 1, 3: 2},      # instance -> definition ; instance 0 is the (standalone) top
        top=0),
    # two levels, no sharing, a feed-through cell with two ports on one inner net
    "feed-through": dict(
        live=dict(Netlist=1, Library=1, Definition=3, Port=4, Cable=3, Wire=3, Instance=4, InnerPin=4, OuterPin=5),
        shape={("Netlist", 0, "_libraries"): [0], ("Library", 0, "_definitions"): [0, 1, 2],
               ("Definition", 0, "_ports"): [0], ("Port", 0, "_pins"): [0],                      # TOP.y
               ("Definition", 1, "_ports"): [1, 2], ("Port", 1, "_pins"): [1], ("Port", 2, "_pins"): [2],   # MID.pi, MID.po
               ("Definition", 2, "_ports"): [3], ("Port", 3, "_pins"): [3],                      # LEAF.I
               ("Definition", 0, "_cables"): [0, 1], ("Cable", 0, "_wires"): [0], ("Cable", 1, "_wires"): [1],
               ("Definition", 1, "_cables"): [2], ("Cable", 2, "_wires"): [2],                   # MID.w
               ("Definition", 0, "_children"): [1, 2], ("Definition", 1, "_children"): [3]},
        refs={0: 0, 1: 1, 2: 2, 3: 2},      # m:MID, snk:LEAF in TOP ; u0:LEAF in MID
        top=0),
    # an EBLIF-shaped netlist: library work {TOP, SUB}, library hdi_primitives {LEAF}
    # TOP(u1:SUB, g:LEAF) ; SUB(l0:LEAF) ; ports TOP.a, SUB.A, LEAF.I, LEAF.O ; nets TOP.n, TOP.m, SUB.x
    "eblif": dict(
        live=dict(Netlist=1, Library=2, Definition=3, Port=4, Cable=3, Wire=3, Instance=4, InnerPin=4, OuterPin=6),
        shape={("Netlist", 0, "_libraries"): [0, 1], ("Library", 0, "_definitions"): [0, 1], ("Library", 1, "_definitions"): [2],
               ("Definition", 0, "_ports"): [0], ("Port", 0, "_pins"): [0],
               ("Definition", 1, "_ports"): [1], ("Port", 1, "_pins"): [1],
               ("Definition", 2, "_ports"): [2, 3], ("Port", 2, "_pins"): [2], ("Port", 3, "_pins"): [3],
               ("Definition", 0, "_cables"): [0, 1], ("Cable", 0, "_wires"): [0], ("Cable", 1, "_wires"): [1],
               ("Definition", 1, "_cables"): [2], ("Cable", 2, "_wires"): [2],
               ("Definition", 0, "_children"): [1, 2], ("Definition", 1, "_children"): [3]},
        refs={0: 0, 1: 1, 2: 2, 3: 2},
        top=0),
    # the same with a two-bit port and a two-bit net (bus indices matter): LEAF.I has two pins, TOP.n two wires
    "eblif-bus": dict(
        live=dict(Netlist=1, Library=2, Definition=3, Port=4, Cable=3, Wire=4, Instance=4, InnerPin=5, OuterPin=7),
        shape={("Netlist", 0, "_libraries"): [0, 1], ("Library", 0, "_definitions"): [0, 1], ("Library", 1, "_definitions"): [2],
               ("Definition", 0, "_ports"): [0], ("Port", 0, "_pins"): [0],
               ("Definition", 1, "_ports"): [1], ("Port", 1, "_pins"): [1, 2],                    # SUB.A[1:0]
               ("Definition", 2, "_ports"): [2, 3], ("Port", 2, "_pins"): [3], ("Port", 3, "_pins"): [4],
               ("Definition", 0, "_cables"): [0, 1], ("Cable", 0, "_wires"): [0, 1], ("Cable", 1, "_wires"): [2],   # TOP.n[1:0], TOP.m
               ("Definition", 1, "_cables"): [2], ("Cable", 2, "_wires"): [3],                   # SUB.x
               ("Definition", 0, "_children"): [1, 2], ("Definition", 1, "_children"): [3]},
        refs={0: 0, 1: 1, 2: 2, 3: 2},
        top=0),
    # a wire-only cell one level down: FEED has two ports and a net but NO children (not a leaf: it owns a cable)
    # TOP(m:MID) ; MID(f:FEED, l:LEAF) ; ports MID.I, FEED.A, FEED.B, LEAF.I ; nets TOP.t, MID.w_in, MID.w_out, FEED.w
    "wire-only": dict(
        live=dict(Netlist=1, Library=1, Definition=4, Port=4, Cable=4, Wire=4, Instance=4, InnerPin=4, OuterPin=4),
        shape={("Netlist", 0, "_libraries"): [0], ("Library", 0, "_definitions"): [0, 1, 2, 3],
               ("Definition", 1, "_ports"): [0], ("Port", 0, "_pins"): [0],                      # MID.I
               ("Definition", 2, "_ports"): [1, 2], ("Port", 1, "_pins"): [1], ("Port", 2, "_pins"): [2],   # FEED.A, FEED.B
               ("Definition", 3, "_ports"): [3], ("Port", 3, "_pins"): [3],                      # LEAF.I
               ("Definition", 0, "_cables"): [0], ("Cable", 0, "_wires"): [0],                   # TOP.t
               ("Definition", 1, "_cables"): [1, 2], ("Cable", 1, "_wires"): [1], ("Cable", 2, "_wires"): [2],   # MID.w_in, MID.w_out
               ("Definition", 2, "_cables"): [3], ("Cable", 3, "_wires"): [3],                   # FEED.w
               ("Definition", 0, "_children"): [1], ("Definition", 1, "_children"): [2, 3]},
        refs={0: 0, 1: 1, 2: 2, 3: 3},
        top=0),
}


def build(fx_name, pfx="s", atoms=("a", "b", "c", "d"), u=None):
    fx = FIXTURES[fx_name]
    if u is None:
        caps = {(P, lst): len(kids) for (P, p_, lst), kids in fx["shape"].items() if len(kids) > 3}
        u = Universe(fx["live"], {}, 3, list_caps=caps, keys=(".NAME",), atoms=atoms)
    h = Heap.symbolic(u, pfx).apply_shape(fx["shape"])
    # references, reference sets, top instance, pin maps: concrete
    for i in range(u.live["Instance"]):
        d = fx["refs"].get(i)
        h.sc[("Instance", "_reference")][i] = NONE_ID if d is None else u.gid("Definition", d)
        h.sc[("Instance", "_is_top_instance")][i] = (i == fx["top"])
    for d in range(u.live["Definition"]):
        for i in range(u.live["Instance"]):
            h.refs[d][i] = fx["refs"].get(i) == d
    h.sc[("Netlist", "_top_instance")][0] = u.gid("Instance", fx["top"])
    # outer pins: one per (instance, inner pin of its definition), slots in enumeration order
    o = 0
    pins_of_def = {}
    for (P, p, lst), kids in fx["shape"].items():
        if P == "Definition" and lst == "_ports":
            pins_of_def[p] = [k for port in kids for k in fx["shape"].get(("Port", port, "_pins"), [])]
    for i in range(u.live["Instance"]):
        for p in range(u.live["InnerPin"]):
            h.pinmap[i][p] = NONE_ID
    owner = {}
    for i in range(u.live["Instance"]):
        for p in pins_of_def.get(fx["refs"].get(i), []):
            h.pinmap[i][p] = u.gid("OuterPin", o)
            h.sc[("OuterPin", "_instance")][o] = u.gid("Instance", i)
            h.sc[("OuterPin", "_inner_pin")][o] = u.gid("InnerPin", p)
            owner[o] = (i, p)
            o += 1
    assert o == u.live["OuterPin"], "fixture outer pin count %d != %d" % (o, u.live["OuterPin"])
    return u, h, fx


def local_nets(h, fx):
    """nets are local: a wire of definition d joins only inner pins of d's ports and outer pins of d's children"""
    u = h.u
    cs = []
    sh = fx["shape"]
    def_of_wire = {}
    for (P, p, lst), kids in sh.items():
        if P == "Definition" and lst == "_cables":
            for c in kids:
                for w in sh.get(("Cable", c, "_wires"), []):
                    def_of_wire[w] = p
    for w in range(u.live["Wire"]):
        d = def_of_wire.get(w)
        ln, el = h.ls[("Wire", "_pins")][w]
        allowed = []
        if d is not None:
            for port in sh.get(("Definition", d, "_ports"), []):
                allowed += [u.gid("InnerPin", k) for k in sh.get(("Port", port, "_pins"), [])]
            for i in sh.get(("Definition", d, "_children"), []):
                for p in range(u.live["InnerPin"]):
                    t = h.pinmap[i][p]
                    if t != NONE_ID:
                        allowed.append(t)
        for k in range(len(el)):
            cs.append(IMPLIES(LT(k, ln), OR(*[EQ(el[k], a) for a in allowed])))
    return [c for c in cs if c is not True]


def enumerate_paths(u, fx):
    """all hierarchical references of the elaborated design (instances, ports, pins, cables, wires)"""
    sh = fx["shape"]
    G = u.gid
    paths = []

    def rec(ipath, inst):
        paths.append(HPath(ipath))
        d = fx["refs"].get(inst)
        if d is None:
            return
        for port in sh.get(("Definition", d, "_ports"), []):
            pp = ipath + (G("Port", port),)
            paths.append(HPath(pp))
            for pin in sh.get(("Port", port, "_pins"), []):
                paths.append(HPath(pp + (G("InnerPin", pin),)))
        for cab in sh.get(("Definition", d, "_cables"), []):
            cp = ipath + (G("Cable", cab),)
            paths.append(HPath(cp))
            for w in sh.get(("Cable", cab, "_wires"), []):
                paths.append(HPath(cp + (G("Wire", w),)))
        for child in sh.get(("Definition", d, "_children"), []):
            rec(ipath + (G("Instance", child),), child)
    rec((G("Instance", fx["top"]),), fx["top"])
    return paths


def install_hrefs(ctx, u, fx):
    """make the interpreter treat HRef values as atoms over the path table"""
    from spydrnet.util.hierarchical_reference import HRef
    from vf.e1.interp import raise_if, bound_if
    paths = enumerate_paths(u, fx)
    ids = {p: ATOMS.intern(p) for p in paths}
    ctx.hpaths = paths
    ctx.hpath_ids = ids

    def from_parent_and_item(c, f, args, kwargs):
        parent, item = args[0], args[1]
        if not isinstance(item, Ref):
            raise Unsupported("href item %r" % (item,))
        rows = []
        for p in paths:
            if u.cls_of(p[-1])[0] not in item.cands:
                continue        # statically impossible: the item is not of that class
            par = p.parent_path
            if parent is None:
                pc = par is None
            elif isinstance(parent, SAtom):
                pc = EQ(parent.t, ids[par]) if par is not None and ids.get(par) in parent.dom else False
            elif isinstance(parent, HPath):
                pc = (par == parent)
            else:
                raise Unsupported("href parent %r" % (parent,))
            cond = AND(pc, EQ(item.t, p[-1]))
            if cond is not False:
                rows.append((cond, ids[p]))
        # a (parent, item) pair that is no path of the design: the real code builds such references
        # too (and later drops them because they report is_valid False); one sentinel stands for all
        inv = ATOMS.intern(INVALID)
        t = inv
        for c_, i_ in reversed(rows):
            t = ITE(c_, i_, t)
        rows = rows + [(True, inv)]
        if not is_sym(t):
            return ATOMS.vals[t]
        return SAtom(t, [i_ for _, i_ in rows])
    ctx.stubs[HRef.from_parent_and_item] = from_parent_and_item
    return paths, ids


def hpath_attr(ctx, fr, obj, name):
    """attribute access on an HRef atom (SAtom over HPaths, or a concrete HPath)"""
    from vf.e1.sym import atom_concrete
    u = ctx.u
    if isinstance(obj, HPath):
        rows = [(True, obj)]
    else:
        rows = [(EQ(obj.t, i), ATOMS.vals[i]) for i in obj.dom if isinstance(ATOMS.vals[i], HPath)]
    if name == "is_valid":
        v = False
        for c, p in reversed(rows):
            v = ITE(c, p != INVALID, v)      # table paths are valid in the fixture's concrete hierarchy
        from vf.e1.sym import mkbool
        return mkbool(v)
    from vf.e1.interp import bound_if
    bound_if(ctx, fr, OR(*[c for c, p in rows if p == INVALID]),
             "attribute %s of an invalid hierarchical reference" % name)
    rows = [(c, p) for c, p in rows if p != INVALID]
    if not rows:
        return None
    if name == "item":
        t = None
        cands = set()
        for c, p in reversed(rows):
            t = p[-1] if t is None else ITE(c, p[-1], t)
            cands.add(u.cls_of(p[-1])[0])
        return Ref(t, tuple(sorted(cands)))
    if name == "parent":
        idx, dom = None, []
        for c, p in reversed(rows):
            par = p.parent_path
            i = 0 if par is None else ATOMS.intern(par)
            dom.append(i)
            idx = i if idx is None else ITE(c, i, idx)
        if not is_sym(idx):
            return ATOMS.vals[idx]
        return SAtom(idx, dom)
    raise Unsupported("HRef attribute %s on a path atom" % name)


def is_hpath_value(v):
    if isinstance(v, HPath):
        return True
    return isinstance(v, SAtom) and any(isinstance(ATOMS.vals[i], HPath) for i in v.dom)


def apply_wire_cube(h, fx, cube):
    """cube split on connections: `cube` = {wire local slot: [pin gids in order]} fixes the complete pin list of
    those wires; every pin that could only sit on one of these wires (net-local) and is not listed is unconnected"""
    u = h.u
    sh = fx["shape"]
    def_of_wire = {}
    for (P, p, lst), kids in sh.items():
        if P == "Definition" and lst == "_cables":
            for c in kids:
                for w in sh.get(("Cable", c, "_wires"), []):
                    def_of_wire[w] = p
    for w, pins in cube.items():
        cap = u.cap("Wire", "_pins")
        h.ls[("Wire", "_pins")][w] = (len(pins), list(pins) + [NONE_ID] * (cap - len(pins)))
    # candidate pins per definition
    for d in set(def_of_wire[w] for w in cube):
        wires_d = [w for w, dd in def_of_wire.items() if dd == d]
        if not all(w in cube for w in wires_d):
            continue
        cands = []
        for port in sh.get(("Definition", d, "_ports"), []):
            cands += [("InnerPin", k) for k in sh.get(("Port", port, "_pins"), [])]
        for i in sh.get(("Definition", d, "_children"), []):
            for p in range(u.live["InnerPin"]):
                t = h.pinmap[i][p]
                if t != NONE_ID:
                    cands.append(("OuterPin", u.cls_of(t)[1]))
        for c, k in cands:
            g = u.gid(c, k)
            on = [w for w in wires_d if g in cube[w]]
            h.sc[(c, "_wire")][k] = u.gid("Wire", on[0]) if on else NONE_ID
    return h
