"""Bounded symbolic heap ("universe") for the spydrnet IR."""
import itertools
import z3
from vf.e1.sym import (Ref, SInt, SBool, SAtom, ATOMS, NONE_ID, is_sym, ITE, AND, OR, NOT, EQ, NE,
                       LT, LE, GE, ADD, SUB, B, I, ite_chain, Unsupported, mkbool, mkint, IMPLIES)

CLASSES = ["Netlist", "Library", "Definition", "Port", "Cable", "Wire", "Instance", "InnerPin",
           "OuterPin"]
PINS = frozenset(["InnerPin", "OuterPin"])
FCE = ["Netlist", "Library", "Definition", "Port", "Cable", "Instance"]   # have _data

# scalar fields: name -> kind ; kind = ("ref", {classes}) | "bool" | "int" | "enum"
SCALARS = {
    "Netlist": {"_top_instance": ("ref", ("Instance",))},
    "Library": {"_netlist": ("ref", ("Netlist",))},
    "Definition": {"_library": ("ref", ("Library",))},
    "Port": {"_definition": ("ref", ("Definition",)), "_is_downto": "bool", "_is_scalar": "bool",
             "_lower_index": "int", "_direction": "enum"},
    "Cable": {"_definition": ("ref", ("Definition",)), "_is_downto": "bool", "_is_scalar": "bool",
              "_lower_index": "int"},
    "Wire": {"_cable": ("ref", ("Cable",))},
    "Instance": {"_parent": ("ref", ("Definition",)), "_reference": ("ref", ("Definition",)),
                 "_is_top_instance": "bool"},
    "InnerPin": {"_wire": ("ref", ("Wire",)), "_port": ("ref", ("Port",))},
    "OuterPin": {"_wire": ("ref", ("Wire",)), "_instance": ("ref", ("Instance",)),
                 "_inner_pin": ("ref", ("InnerPin",))},
}
LISTS = {
    "Netlist": {"_libraries": ("Library",)},
    "Library": {"_definitions": ("Definition",)},
    "Definition": {"_ports": ("Port",), "_cables": ("Cable",), "_children": ("Instance",)},
    "Port": {"_pins": ("InnerPin",)},
    "Cable": {"_wires": ("Wire",)},
    "Wire": {"_pins": ("InnerPin", "OuterPin")},
}
# (container class, list field, child class, back pointer field)
OWNERSHIP = [
    ("Netlist", "_libraries", "Library", "_netlist"),
    ("Library", "_definitions", "Definition", "_library"),
    ("Definition", "_ports", "Port", "_definition"),
    ("Definition", "_cables", "Cable", "_definition"),
    ("Definition", "_children", "Instance", "_parent"),
    ("Port", "_pins", "InnerPin", "_port"),
    ("Cable", "_wires", "Wire", "_cable"),
]


class Universe:
    """slot layout.  live[c] pre-state objects + fresh[c] allocatable slots per class."""

    def __init__(self, live, fresh, K, keys=(".NAME", "EDIF.identifier", ".NS", "ukey"),
                 atoms=("a", "b"), list_caps=None):
        self.live = dict(live)
        self.fresh = dict(fresh)
        self.K = K
        self.list_caps = dict(list_caps or {})
        self.keys = list(keys)
        self.n, self.base = {}, {}
        b = 0
        for c in CLASSES:
            self.n[c] = self.live.get(c, 0) + self.fresh.get(c, 0)
            self.base[c] = b
            b += self.n[c]
        self.total = b
        self.atom_ids = [ATOMS.intern(a) for a in atoms]
        # direction enum members as atoms
        import spydrnet as sdn
        self.dir_ids = [ATOMS.intern(d) for d in sdn.Port.Direction]

    def cap(self, cls, field):
        return self.list_caps.get((cls, field), self.K)

    def gid(self, cls, i):
        return self.base[cls] + i

    def ids(self, cls, live_only=False):
        n = self.live.get(cls, 0) if live_only else self.n[cls]
        return [self.base[cls] + i for i in range(n)]

    def isin(self, t, cls):
        lo, hi = self.base[cls], self.base[cls] + self.n[cls]
        if hi == lo:
            return False
        if not is_sym(t):
            return lo <= t < hi
        return AND(t >= lo, t < hi)

    def isin_any(self, t, classes):
        return OR(*[self.isin(t, c) for c in classes])

    def cls_of(self, gid):
        for c in CLASSES:
            if self.base[c] <= gid < self.base[c] + self.n[c]:
                return c, gid - self.base[c]
        return None, None

    def describe(self):
        return {"live": self.live, "fresh": self.fresh, "list_capacity": self.K,
                "data_keys": self.keys, "atoms": [ATOMS.vals[i] for i in self.atom_ids]}


class SList:
    """bounded sequence.  len: raw int; el: list of values (capacity = len(el))."""
    __slots__ = ("len", "el", "home", "is_set", "mask")

    def __init__(self, ln, el, home=None, is_set=False, mask=None):
        self.len = ln
        self.el = list(el)
        self.home = home
        self.is_set = is_set
        self.mask = mask      # optional per-slot presence flags (sparse sequence)

    @property
    def cap(self):
        return len(self.el)

    def copy(self):
        return SList(self.len, self.el, None, self.is_set, None if self.mask is None else list(self.mask))

    def __repr__(self):
        return "SList(len=%s, %s)" % (self.len, self.el)


class Heap:
    def __init__(self, u):
        self.u = u
        self.sc = {}      # (cls, field) -> [raw term per slot]
        self.ls = {}      # (cls, field) -> [ (len, [raw ids]) per slot ]
        self.refs = []    # Definition._references: [d][i] Bool
        self.pinmap = []  # Instance._pins: [i][p] raw int (-1 absent)
        self.data = {}    # cls -> [slot][key_index] -> (present, atom idx)
        self.nxt = {}     # cls -> raw int (cls-local allocation pointer)
        self.exact = {}   # cls -> [Bool]: object is an instance of the public (extended) class
        self.extra = {}   # free-form extra state (namespace tables etc.)

    # ---- construction
    @staticmethod
    def blank(u):
        h = Heap(u)
        for c in CLASSES:
            for f, kind in SCALARS[c].items():
                if kind == "bool":
                    d = True if f in ("_is_downto", "_is_scalar") else False
                elif kind == "int":
                    d = 0
                elif kind == "enum":
                    d = u.dir_ids[0]
                else:
                    d = NONE_ID
                h.sc[(c, f)] = [d] * u.n[c]
            for f in LISTS.get(c, {}):
                h.ls[(c, f)] = [(0, [NONE_ID] * u.cap(c, f)) for _ in range(u.n[c])]
            h.nxt[c] = u.live.get(c, 0)
            h.exact[c] = [True] * u.n[c]
        h.refs = [[False] * u.n["Instance"] for _ in range(u.n["Definition"])]
        h.pinmap = [[NONE_ID] * u.n["InnerPin"] for _ in range(u.n["Instance"])]
        for c in FCE:
            h.data[c] = [[(False, 0) for _ in u.keys] for _ in range(u.n[c])]
        return h

    @staticmethod
    def symbolic(u, pfx="s"):
        """arbitrary pre-state over the live slots (fresh slots blank).  Type constraints are
        returned separately by `wellformed_types`."""
        h = Heap.blank(u)
        for c in CLASSES:
            nl = u.live.get(c, 0)
            for f, kind in SCALARS[c].items():
                for i in range(nl):
                    nm = "%s_%s%d%s" % (pfx, c, i, f)
                    h.sc[(c, f)][i] = z3.Bool(nm) if kind == "bool" else z3.Int(nm)
            for f in LISTS.get(c, {}):
                for i in range(nl):
                    nm = "%s_%s%d%s" % (pfx, c, i, f)
                    h.ls[(c, f)][i] = (z3.Int(nm + "_len"),
                                       [z3.Int("%s_%d" % (nm, k)) for k in range(u.cap(c, f))])
        for d in range(u.live.get("Definition", 0)):
            for i in range(u.live.get("Instance", 0)):
                h.refs[d][i] = z3.Bool("%s_refs_%d_%d" % (pfx, d, i))
        for i in range(u.live.get("Instance", 0)):
            for p in range(u.live.get("InnerPin", 0)):
                h.pinmap[i][p] = z3.Int("%s_pm_%d_%d" % (pfx, i, p))
        for c in FCE:
            for i in range(u.live.get(c, 0)):
                for k in range(len(u.keys)):
                    h.data[c][i][k] = (z3.Bool("%s_%s%d_has%d" % (pfx, c, i, k)),
                                       z3.Int("%s_%s%d_val%d" % (pfx, c, i, k)))
        return h

    def apply_shape(self, shape):
        """make the containment structure concrete (cube split on the shape; links stay symbolic).
        shape: {(parent class, parent local slot, list field): [child local slots]}; every ownership
        list of a live object that is not mentioned is empty; back pointers follow."""
        u = self.u
        for (P, lst, C, back) in OWNERSHIP:
            for c in range(u.live.get(C, 0)):
                self.sc[(C, back)][c] = NONE_ID
            for p in range(u.live.get(P, 0)):
                kids = list(shape.get((P, p, lst), []))
                cap = u.cap(P, lst)
                assert len(kids) <= cap, "shape exceeds list capacity"
                self.ls[(P, lst)][p] = (len(kids), [u.gid(C, k) for k in kids] + [NONE_ID] * (cap - len(kids)))
                for k in kids:
                    self.sc[(C, back)][k] = u.gid(P, p)
        return self

    def copy(self):
        h = Heap(self.u)
        h.sc = {k: list(v) for k, v in self.sc.items()}
        h.ls = {k: [(ln, list(el)) for ln, el in v] for k, v in self.ls.items()}
        h.refs = [list(r) for r in self.refs]
        h.pinmap = [list(r) for r in self.pinmap]
        h.data = {c: [list(s) for s in v] for c, v in self.data.items()}
        h.nxt = dict(self.nxt)
        h.exact = {c: list(v) for c, v in self.exact.items()}
        h.extra = {k: (v.copy() if hasattr(v, "copy") else v) for k, v in self.extra.items()}
        return h

    # ---- typing of the symbolic pre-state (domains only; relations are in spec.Inv)
    def type_constraints(self):
        u = self.u
        cs = []
        for c in CLASSES:
            nl = u.live.get(c, 0)
            for f, kind in SCALARS[c].items():
                for i in range(nl):
                    t = self.sc[(c, f)][i]
                    if not is_sym(t):
                        continue
                    if isinstance(kind, tuple):
                        cs.append(OR(t == NONE_ID, *[self._live_in(t, k) for k in kind[1]]))
                    elif kind == "enum":
                        cs.append(OR(*[t == d for d in u.dir_ids]))
            for f, elc in LISTS.get(c, {}).items():
                for i in range(nl):
                    ln, el = self.ls[(c, f)][i]
                    if is_sym(ln):
                        cs.append(AND(ln >= 0, ln <= len(el)))
                    for k, e in enumerate(el):
                        if is_sym(e):
                            cs.append(IMPLIES(LT(k, ln), OR(*[self._live_in(e, ec) for ec in elc])))
        for i in range(u.live.get("Instance", 0)):
            for p in range(u.live.get("InnerPin", 0)):
                t = self.pinmap[i][p]
                if is_sym(t):
                    cs.append(OR(t == NONE_ID, self._live_in(t, "OuterPin")))
        for c in FCE:
            for i in range(u.live.get(c, 0)):
                for k in range(len(u.keys)):
                    pr, v = self.data[c][i][k]
                    if is_sym(v):
                        cs.append(OR(*[v == a for a in self.key_dom(k)]))
        return [x for x in cs if x is not True]

    def key_dom(self, k):
        u = self.u
        key = u.keys[k]
        if key == ".NS":
            return [ATOMS.intern(x) for x in getattr(u, "ns_values", ("DEFAULT", "EDIF"))]
        return u.atom_ids

    def _live_in(self, t, cls):
        u = self.u
        lo, n = u.base[cls], u.live.get(cls, 0)
        if n == 0:
            return False
        return AND(t >= lo, t < lo + n)

    # ---- raw access by reference
    def _cands_with(self, cands, field, table):
        return [c for c in CLASSES if c in cands and (c, field) in table]

    def read_scalar(self, ref, field):
        """-> (raw term, kind, ok_cond) ; ok_cond false => AttributeError"""
        u = self.u
        cs = self._cands_with(ref.cands, field, self.sc)
        if not cs:
            return None, None, False
        kinds = {repr(SCALARS[c][field]) for c in cs}
        kind = SCALARS[cs[0]][field]
        if len(kinds) > 1:
            if all(isinstance(SCALARS[c][field], tuple) for c in cs):
                kind = ("ref", tuple(sorted({k for c in cs for k in SCALARS[c][field][1]})))
            else:
                raise Unsupported("field %s has different kinds in %s" % (field, cs))
        keys, vals = [], []
        for c in cs:
            keys += u.ids(c)
            vals += self.sc[(c, field)]
        default = NONE_ID if isinstance(kind, tuple) else (False if kind == "bool" else 0)
        return ite_chain(ref.t, keys, vals, default), kind, u.isin_any(ref.t, cs)

    def write_scalar(self, g, ref, field, raw):
        u = self.u
        cs = self._cands_with(ref.cands, field, self.sc)
        for c in cs:
            arr = self.sc[(c, field)]
            for i in range(u.n[c]):
                hit = AND(g, EQ(ref.t, u.gid(c, i)))
                if hit is not False:
                    arr[i] = ITE(hit, raw, arr[i])
        return u.isin_any(ref.t, cs)

    def read_list(self, ref, field):
        """-> (SList of Refs bound to its home, ok_cond)"""
        u = self.u
        cs = self._cands_with(ref.cands, field, self.ls)
        if not cs:
            return None, False
        if len(cs) > 1:
            raise Unsupported("list field %s on several classes %s" % (field, cs))
        c = cs[0]
        keys = u.ids(c)
        cap = u.cap(c, field)
        ln = ite_chain(ref.t, keys, [s[0] for s in self.ls[(c, field)]], 0)
        elc = LISTS[c][field]
        el = [Ref(ite_chain(ref.t, keys, [s[1][k] for s in self.ls[(c, field)]], NONE_ID), elc)
              for k in range(cap)]
        return SList(ln, el, home=("list", c, field, ref.t)), u.isin(ref.t, c)

    def write_list(self, g, cls, field, t, sl):
        """store SList contents (value semantics) into the heap list of object t"""
        u = self.u
        cap = u.cap(cls, field)
        arr = self.ls[(cls, field)]
        raws = []
        for k in range(cap):
            if k < len(sl.el):
                e = sl.el[k]
                raws.append(e.t if isinstance(e, Ref) else (NONE_ID if e is None else e))
            else:
                raws.append(NONE_ID)
        over = False
        if len(sl.el) > cap:
            over = LT(cap, sl.len)
        for i in range(u.n[cls]):
            hit = AND(g, EQ(t, u.gid(cls, i)))
            if hit is False:
                continue
            ln, el = arr[i]
            arr[i] = (ITE(hit, sl.len, ln), [ITE(hit, a, b) for a, b in zip(raws, el)])
        return over

    # ---- allocation
    def alloc(self, g, cls):
        """-> (Ref to fresh object, overflow_cond)"""
        u = self.u
        p = self.nxt[cls]
        t = ADD(u.base[cls], p)
        over = AND(g, GE(p, u.n[cls]))
        self.nxt[cls] = ITE(g, ADD(p, 1), p)
        return Ref(t, (cls,)), over

    def allocated(self, cls, i, nxt=None):
        """slot i (cls-local) exists"""
        return LT(i, self.nxt[cls] if nxt is None else nxt)
