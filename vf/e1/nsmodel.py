"""Heap-resident model of the NamespaceManager's data structure (its CODE is interpreted from
source; only the nested dictionaries `manager.namespaces[parent].namespaces[type][name]` are
represented here, addressed by symbolic parent / type / name)."""
import z3
from vf.e1.sym import (Ref, SAtom, ATOMS, NONE_ID, is_sym, ITE, AND, OR, NOT, EQ, NE, LT, IMPLIES,
                       Unsupported, mkbool, ite_chain, atom_concrete)
from vf.e1.heap import FCE
from vf.e1 import spec

PARENTS = ["Netlist", "Library", "Definition"]
CHILD_TYPES = {"Netlist": ["Library"], "Library": ["Definition"],
               "Definition": ["Port", "Cable", "Instance"]}
BACK = {"Library": "_netlist", "Definition": "_library", "Port": "_definition",
        "Cable": "_definition", "Instance": "_parent"}
KINDS = ["name", "edif"]


class NSState:
    def __init__(self, u):
        self.u = u
        self.has = {}      # parent gid -> raw bool
        self.typ = {}      # (gid, T, kind) -> raw bool
        self.ent = {}      # (gid, T, kind) -> {atom id: (present, val)}

    @staticmethod
    def make(u, symbolic, pfx="ns"):
        s = NSState(u)
        lower_ids = sorted({ATOMS.intern(ATOMS.vals[a].lower()) for a in u.atom_ids})
        for P in PARENTS:
            for i in range(u.n[P]):
                g = u.gid(P, i)
                sym = symbolic and i < u.live.get(P, 0)
                s.has[g] = z3.Bool("%s_has_%d" % (pfx, g)) if sym else False
                for T in CHILD_TYPES[P]:
                    for kind in KINDS:
                        key = (g, T, kind)
                        s.typ[key] = z3.Bool("%s_typ_%d_%s_%s" % (pfx, g, T, kind)) if sym else False
                        ids = u.atom_ids if kind == "name" else lower_ids
                        s.ent[key] = {a: ((z3.Bool("%s_e_%d_%s_%s_%d" % (pfx, g, T, kind, a)),
                                           z3.Int("%s_v_%d_%s_%s_%d" % (pfx, g, T, kind, a))) if sym
                                          else (False, NONE_ID)) for a in ids}
        return s

    def copy(self):
        s = NSState(self.u)
        s.has = dict(self.has)
        s.typ = dict(self.typ)
        s.ent = {k: dict(v) for k, v in self.ent.items()}
        return s


class NSManagerDict:       # manager.namespaces
    pass


class NSObj:               # manager.namespaces[parent]
    def __init__(self, t):
        self.t = t


class NSTypeDict:          # nsobj.namespaces / nsobj.edif_namespaces
    def __init__(self, t, kind):
        self.t, self.kind = t, kind


class NSNameDict:          # nsobj.namespaces[type]
    def __init__(self, t, kind, T):
        self.t, self.kind, self.T = t, kind, T


def st(ctx):
    return ctx.h.extra["ns"]


def _parents(ctx, t):
    """[(gid, cond)] parent slots a symbolic parent reference may denote"""
    out = []
    for g in st(ctx).has:
        c = EQ(t, g)
        if c is not False:
            out.append((g, c))
    return out


def _types(ctx, T):
    """[(class name, cond)] for a type value (class object or SAtom over class objects)"""
    if isinstance(T, SAtom):
        c, v = atom_concrete(T)
        if c:
            T = v
        else:
            return [(ATOMS.vals[i].__name__, EQ(T.t, i)) for i in T.dom]
    return [(getattr(T, "__name__", str(T)), True)]


def _names(ctx, name):
    if isinstance(name, SAtom):
        c, v = atom_concrete(name)
        if c:
            return [(ATOMS.intern(v), True)]
        return [(i, EQ(name.t, i)) for i in name.dom]
    return [(ATOMS.intern(name), True)]


# ---- manager.namespaces -------------------------------------------------------------------------
def mgr_has(ctx, fr, key):
    if not isinstance(key, Ref):
        return False
    return OR(*[AND(c, st(ctx).has[g]) for g, c in _parents(ctx, key.t)])


def mgr_set(ctx, fr, key, g_live, present):
    """namespaces[key] = <fresh empty namespace>  /  del namespaces[key]"""
    s = st(ctx)
    for g, c in _parents(ctx, key.t):
        hit = AND(g_live, c)
        if hit is False:
            continue
        s.has[g] = ITE(hit, present, s.has[g])
        for k in s.typ:
            if k[0] == g:
                s.typ[k] = ITE(hit, False, s.typ[k])
                s.ent[k] = {a: (ITE(hit, False, pr), v) for a, (pr, v) in s.ent[k].items()}


# ---- type level -----------------------------------------------------------------------------------
def typ_has(ctx, td, T):
    s = st(ctx)
    r = False
    for g, c in _parents(ctx, td.t):
        for tn, ct in _types(ctx, T):
            k = (g, tn, td.kind)
            if k in s.typ:
                r = OR(r, AND(c, ct, s.typ[k]))
    return r


def typ_set_empty(ctx, td, T, g_live):
    s = st(ctx)
    for g, c in _parents(ctx, td.t):
        for tn, ct in _types(ctx, T):
            k = (g, tn, td.kind)
            hit = AND(g_live, c, ct)
            if hit is False:
                continue
            if k not in s.typ:
                # a child type that this kind of parent cannot have: recorded and discharged as
                # an "impossible combination" side obligation instead of being ignored
                ctx.__dict__.setdefault("impossible", []).append(
                    (hit, "namespace for child type %s under parent %d" % (tn, g)))
                continue
            s.typ[k] = ITE(hit, True, s.typ[k])
            s.ent[k] = {a: (ITE(hit, False, pr), v) for a, (pr, v) in s.ent[k].items()}


# ---- name level -----------------------------------------------------------------------------------
def _rows(ctx, nd, name):
    s = st(ctx)
    for g, c in _parents(ctx, nd.t):
        for tn, ct in _types(ctx, nd.T):
            k = (g, tn, nd.kind)
            if k not in s.ent:
                continue
            for a, cn in _names(ctx, name):
                cond = AND(c, ct, cn)
                if cond is not False:
                    yield k, a, cond


def name_has(ctx, nd, name):
    s = st(ctx)
    r = False
    for k, a, cond in _rows(ctx, nd, name):
        if a in s.ent[k]:
            r = OR(r, AND(cond, s.ent[k][a][0]))
    return r


def name_get(ctx, nd, name):
    s = st(ctx)
    t = NONE_ID
    cands = set()
    for k, a, cond in _rows(ctx, nd, name):
        if a in s.ent[k]:
            t = ITE(cond, s.ent[k][a][1], t)
            cands.add(k[1])
    return Ref(t, tuple(sorted(cands)) or ("Library",))


def name_set(ctx, nd, name, val, g_live, present=True):
    s = st(ctx)
    from vf.e1.vals import raw_ref
    for k, a, cond in _rows(ctx, nd, name):
        hit = AND(g_live, cond)
        if hit is False:
            continue
        pr, v = s.ent[k].get(a, (False, NONE_ID))
        if present:
            s.ent[k][a] = (ITE(hit, True, pr), ITE(hit, raw_ref(val), v))
        else:
            s.ent[k][a] = (ITE(hit, False, pr), v)


# ---- invariant I4 -----------------------------------------------------------------------------------
def i4(h, policy):
    """tables == scan; .NS tags present and uniform (= policy); identifiers legal under EDIF"""
    u = h.u
    s = h.extra["ns"]
    out = {"I4:tables-hold-only-current-children": [], "I4:every-named-child-is-in-the-table": [],
           "I4:policy-tags": [], "I4:identifiers-legal": []}
    kn, ki, ks = u.keys.index(".NAME"), u.keys.index("EDIF.identifier"), u.keys.index(".NS")
    pol = ATOMS.intern(policy)
    from spydrnet.plugins.namespace_manager.edif_namespace import EdifNamespace
    for c in FCE:
        for i in range(u.n[c]):
            ex = spec.exists(h, c, i)
            if ex is False:
                continue
            pr, v = h.data[c][i][ks]
            out["I4:policy-tags"].append(IMPLIES(ex, AND(pr, EQ(v, pol))))
            if policy == "EDIF":
                pi, vi = h.data[c][i][ki]
                legal = OR(*[EQ(vi, a) for a in u.atom_ids
                             if EdifNamespace._check_EDIF_identifier(ATOMS.vals[a])])
                out["I4:identifiers-legal"].append(IMPLIES(AND(ex, pi), legal))
    for P in PARENTS:
        for p in range(u.n[P]):
            g = u.gid(P, p)
            exp = spec.exists(h, P, p)
            if exp is False:
                continue
            out["I4:policy-tags"].append(IMPLIES(exp, s.has[g]))
            for T in CHILD_TYPES[P]:
                for kind in KINDS:
                    if kind == "edif" and policy != "EDIF":
                        continue
                    kk = ki if kind == "edif" else kn
                    key = (g, T, kind)
                    for a, (pr, val) in s.ent[key].items():
                        # (1) an entry names a current child carrying exactly that key
                        alts = []
                        for c in range(u.n[T]):
                            dp, dv = h.data[T][c][kk]
                            carries = AND(dp, _key_matches(dv, a, kind, u))
                            alts.append(AND(EQ(val, u.gid(T, c)), spec.exists(h, T, c),
                                            EQ(h.sc[(T, BACK[T])][c], g), carries))
                        out["I4:tables-hold-only-current-children"].append(
                            IMPLIES(AND(exp, s.has[g], pr), AND(s.typ[key], OR(*alts))))
                        # (2) every child carrying the key is the entry
                        for c in range(u.n[T]):
                            dp, dv = h.data[T][c][kk]
                            carries = AND(spec.exists(h, T, c), EQ(h.sc[(T, BACK[T])][c], g), dp,
                                          _key_matches(dv, a, kind, u))
                            out["I4:every-named-child-is-in-the-table"].append(
                                IMPLIES(AND(exp, s.has[g], carries), AND(pr, EQ(val, u.gid(T, c)))))
    return {k: [x for x in v if x is not True] for k, v in out.items() if v}


def _key_matches(dv, a, kind, u):
    """data value atom dv maps to table key a (identity for names, lower() for identifiers)"""
    if kind == "name":
        return EQ(dv, a)
    return OR(*[EQ(dv, b) for b in u.atom_ids if ATOMS.intern(ATOMS.vals[b].lower()) == a])


def frame(pre, post):
    a, b = pre.extra["ns"], post.extra["ns"]
    u = pre.u
    cs = []
    live = set()
    for P in PARENTS:
        for i in range(u.live.get(P, 0)):
            live.add(u.gid(P, i))
    for g in a.has:
        if g not in live:
            continue
        cs.append(EQ(a.has[g], b.has[g]))
    for k in a.ent:
        if k[0] not in live:
            continue
        for at, (pr, v) in a.ent[k].items():
            pr2, v2 = b.ent[k].get(at, (False, NONE_ID))
            # observable content: which names resolve to which child
            cs.append(IMPLIES(a.has[k[0]], AND(EQ(pr, pr2), IMPLIES(pr, EQ(v, v2)))))
        for at in b.ent[k]:
            if at not in a.ent[k]:
                cs.append(IMPLIES(a.has[k[0]], NOT(b.ent[k][at][0])))
    return {"frame:name-lookup-tables": [x for x in cs if x is not True]}
