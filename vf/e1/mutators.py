"""The inductive mutator step: every public IR mutator from an arbitrary Inv-state.

One *job* = one (mutator, listener configuration): the real method is executed symbolically once,
then one solver query per invariant clause group / frame group / event clause is discharged.
"""
import os
import time
import z3
import spydrnet as sdn
from vf.e1.sym import (Ref, SInt, SBool, SAtom, ATOMS, NONE_ID, is_sym, ITE, AND, OR, NOT, EQ, NE,
                       LT, LE, GE, GT, B, Unsupported, mkbool, mkint)
from vf.e1.heap import Universe, Heap, CLASSES, SList
from vf.e1.vals import SOpt
from vf.e1.interp import Ctx, Frame, call_function, mro_lookup, live
from vf.e1 import spec, ops

REAL = {c: getattr(sdn, c) for c in CLASSES}

# ---- argument domains -------------------------------------------------------------------------
PIN = ("ref", ("InnerPin", "OuterPin"))
POS = ("pos",)
BOOL = ("bool",)
ATOM = ("atom",)
ATOM_OR_NONE = ("atom_none",)
NONEARG = ("none",)


def R(*classes):
    return ("ref", tuple(classes))


def SEQ(*classes):
    return ("seq", tuple(classes))


def INT(lo, hi):
    return ("int", lo, hi)


def KEY(*keys):
    return ("key", keys)


# (class, method, [arg domains], {kwarg: domain})   method "set:x"/"del:x" = property setter/deleter
MUTATORS = [
    ("Wire", "connect_pin", [PIN, POS]),
    ("Wire", "disconnect_pin", [PIN]),
    ("Wire", "disconnect_pins_from", [SEQ("InnerPin", "OuterPin")]),
    ("Wire", "set:pins", [SEQ("InnerPin", "OuterPin")]),
    ("Cable", "create_wire", []),
    ("Cable", "create_wires", [INT(-1, 2)]),
    ("Cable", "add_wire", [R("Wire"), POS]),
    ("Cable", "remove_wire", [R("Wire")]),
    ("Cable", "remove_wires_from", [SEQ("Wire")]),
    ("Cable", "set:wires", [SEQ("Wire")]),
    ("Port", "create_pin", []),
    ("Port", "create_pins", [INT(-1, 2)]),
    ("Port", "add_pin", [R("InnerPin"), POS]),
    ("Port", "remove_pin", [R("InnerPin")]),
    ("Port", "remove_pins_from", [SEQ("InnerPin")]),
    ("Port", "set:pins", [SEQ("InnerPin")]),
    ("Definition", "add_port", [R("Port"), POS]),
    ("Definition", "remove_port", [R("Port")]),
    ("Definition", "remove_ports_from", [SEQ("Port")]),
    ("Definition", "set:ports", [SEQ("Port")]),
    ("Definition", "create_port", [ATOM_OR_NONE], {"pins": INT(0, 2)}),
    ("Definition", "add_child", [R("Instance"), POS]),
    ("Definition", "remove_child", [R("Instance")]),
    ("Definition", "remove_children_from", [SEQ("Instance")]),
    ("Definition", "set:children", [SEQ("Instance")]),
    ("Definition", "create_child", [ATOM_OR_NONE], {"reference": R("Definition")}),
    ("Definition", "add_cable", [R("Cable"), POS]),
    ("Definition", "remove_cable", [R("Cable")]),
    ("Definition", "remove_cables_from", [SEQ("Cable")]),
    ("Definition", "set:cables", [SEQ("Cable")]),
    ("Definition", "create_cable", [ATOM_OR_NONE], {"wires": INT(0, 2)}),
    ("Library", "add_definition", [R("Definition"), POS]),
    ("Library", "remove_definition", [R("Definition")]),
    ("Library", "remove_definitions_from", [SEQ("Definition")]),
    ("Library", "set:definitions", [SEQ("Definition")]),
    ("Library", "create_definition", [ATOM_OR_NONE]),
    ("Netlist", "add_library", [R("Library"), POS]),
    ("Netlist", "remove_library", [R("Library")]),
    ("Netlist", "remove_libraries_from", [SEQ("Library")]),
    ("Netlist", "set:libraries", [SEQ("Library")]),
    ("Netlist", "create_library", [ATOM_OR_NONE]),
    ("Netlist", "set:top_instance", [R("Instance", "Definition")]),
    ("Netlist", "set_top_instance", [R("Instance", "Definition")]),
    ("Instance", "set:reference", [R("Definition")]),
    ("Instance", "del:reference", []),
    ("Instance", "set:is_top_instance", [BOOL]),
    ("Port", "set:is_downto", [BOOL]),
    ("Port", "set:is_scalar", [BOOL]),
    ("Port", "set:is_array", [BOOL]),
    ("Port", "set:lower_index", [INT(-3, 3)]),
    ("Cable", "set:is_scalar", [BOOL]),
    ("Cable", "set:is_array", [BOOL]),
    ("Port", "set:name", [ATOM_OR_NONE]),
    ("Instance", "del:name", []),
    ("Definition", "__setitem__", [KEY(".NAME", "EDIF.identifier", "ukey"), ATOM]),
    ("Cable", "__delitem__", [KEY(".NAME", "EDIF.identifier", "ukey")]),
    ("Library", "pop", [KEY(".NAME", "EDIF.identifier", "ukey")]),
]
CONSTRUCTORS = [
    ("Netlist", [ATOM_OR_NONE]), ("Library", [ATOM_OR_NONE]), ("Definition", [ATOM_OR_NONE]),
    ("Port", [ATOM_OR_NONE]), ("Cable", [ATOM_OR_NONE]), ("Instance", [ATOM_OR_NONE]),
    ("Wire", []), ("InnerPin", []), ("OuterPin", [R("Instance"), R("InnerPin")]),
]

# ---- universes ---------------------------------------------------------------------------------
PROFILES = {
    "quick": dict(live=dict(Netlist=1, Library=2, Definition=2, Port=2, Cable=2, Wire=2, Instance=2,
                            InnerPin=3, OuterPin=5), K=3, seq=2),
    # mutators whose body runs nested loops of symbolic disconnects: smaller shape in the quick tier
    "quick_heavy": dict(live=dict(Netlist=1, Library=1, Definition=2, Port=2, Cable=1, Wire=2,
                                  Instance=2, InnerPin=2, OuterPin=4), K=2, seq=1),
    "thorough": dict(live=dict(Netlist=2, Library=2, Definition=3, Port=3, Cable=2, Wire=3, Instance=3,
                               InnerPin=4, OuterPin=8), K=4, seq=3),
    "thorough_heavy": dict(live=dict(Netlist=1, Library=1, Definition=2, Port=2, Cable=1, Wire=2,
                                     Instance=2, InnerPin=3, OuterPin=5), K=3, seq=2),
}
HEAVY = {("Port", "remove_pins_from"), ("Definition", "remove_ports_from"), ("Instance", "set:reference"),
         ("Definition", "remove_port"), ("Port", "remove_pin"), ("Instance", "del:reference"),
         ("Wire", "disconnect_pins_from")}


def fresh_for(cls, method, prof):
    """allocatable slots per class.  A mutator that allocates more than this trips the allocation
    bound, which is reported (bound-reached) and makes the reachability twins fail loudly."""
    nip = prof["live"]["InnerPin"]
    ninst = prof["live"]["Instance"]
    K = prof["K"]
    t = {
        ("Cable", "create_wire"): dict(Wire=1), ("Cable", "create_wires"): dict(Wire=2),
        ("Port", "create_pin"): dict(InnerPin=1, OuterPin=ninst),
        ("Port", "create_pins"): dict(InnerPin=2, OuterPin=2 * ninst),
        ("Port", "add_pin"): dict(OuterPin=ninst),
        ("Definition", "add_port"): dict(OuterPin=min(K, nip) * ninst),
        ("Definition", "create_port"): dict(Port=1, InnerPin=2, OuterPin=2 * ninst),
        ("Definition", "create_child"): dict(Instance=1, OuterPin=nip),
        ("Definition", "create_cable"): dict(Cable=1, Wire=2),
        ("Library", "create_definition"): dict(Definition=1),
        ("Netlist", "create_library"): dict(Library=1),
        ("Netlist", "set:top_instance"): dict(Instance=1, OuterPin=nip),
        ("Netlist", "set_top_instance"): dict(Instance=1, OuterPin=nip),
        ("Instance", "set:reference"): dict(OuterPin=nip),
    }
    return t.get((cls, method), {})


def universe(tier, cls=None, method=None, ns_policy=None, profile=None):
    name = tier + ("_heavy" if (cls, method) in HEAVY else "")
    p = dict(PROFILES[name])
    p["profile"] = name
    if profile:
        p = dict(profile)
        p.setdefault("profile", "shape")
    fresh = fresh_for(cls, method, p) if cls else {}
    if ns_policy:
        # colliding alphabet: case variants, a distinct name, an identifier that is illegal in EDIF
        u = Universe(p["live"], fresh, p["K"], atoms=("a", "A", "b", "1x"))
        u.ns_values = (ns_policy,)
        return u, p
    return Universe(p["live"], fresh, p["K"]), p


class ArgBuilder:
    def __init__(self, u, seqlen):
        self.u, self.seqlen = u, seqlen
        self.constraints = []
        self.vars = {}          # name -> z3 const (for model extraction)
        self.n = 0

    def fresh(self, base, sort="int"):
        self.n += 1
        nm = "arg%d_%s" % (self.n, base)
        v = z3.Bool(nm) if sort == "bool" else z3.Int(nm)
        self.vars[nm] = v
        return v

    def ref(self, classes, allow_none=True, base="ref"):
        u = self.u
        t = self.fresh(base)
        alts = [t == NONE_ID] if allow_none else []
        for c in classes:
            n = u.live.get(c, 0)
            if n:
                alts.append(z3.And(t >= u.base[c], t < u.base[c] + n))
        self.constraints.append(z3.Or(*alts))
        return Ref(t, classes)

    def build(self, dom):
        u = self.u
        k = dom[0]
        if k == "ref":
            return self.ref(dom[1])
        if k == "pos":
            isn = self.fresh("pos_is_none", "bool")
            v = self.fresh("pos")
            return SOpt(isn, SInt(v))
        if k == "bool":
            return SBool(self.fresh("flag", "bool"))
        if k == "int":
            v = self.fresh("n")
            self.constraints.append(z3.And(v >= dom[1], v <= dom[2]))
            return SInt(v)
        if k in ("atom", "atom_none"):
            v = self.fresh("atom")
            ids = list(u.atom_ids) + ([0] if k == "atom_none" else [])
            self.constraints.append(z3.Or(*[v == i for i in ids]))
            return SAtom(v, ids)
        if k == "key":
            v = self.fresh("key")
            ids = [ATOMS.intern(s) for s in dom[1]]
            self.constraints.append(z3.Or(*[v == i for i in ids]))
            return SAtom(v, ids)
        if k == "seq":
            ln = self.fresh("seqlen")
            self.constraints.append(z3.And(ln >= 0, ln <= self.seqlen))
            els = [self.ref(dom[1], allow_none=False, base="seq%d" % j) for j in range(self.seqlen)]
            is_set = self.fresh("seq_is_set", "bool")
            return ("seq", SList(ln, els), is_set)
        if k == "none":
            return None
        raise ValueError(dom)


def run_mutator(u, seqlen, cls, method, doms, kwdoms=None, listeners=None, prep=None, ns_policy=None,
                self_slot=None, shape=None):
    """symbolically execute one mutator from an arbitrary pre-state.
    returns dict(pre, post, ctx, assumptions(list of z3), args(builder), retval)"""
    pre = Heap.symbolic(u, "s")
    if shape is not None:
        pre.apply_shape(shape)
    if ns_policy:
        from vf.e1 import nsmodel as NS
        pre.extra["ns"] = NS.NSState.make(u, True)
    heap = pre.copy()
    ctx = Ctx(heap, REAL)
    if prep:
        prep(ctx)
    fr = Frame(None, True, {})
    ab = ArgBuilder(u, seqlen)
    if self_slot is None:
        self_ref = ab.ref((cls,), allow_none=False, base="self")
    else:
        self_ref = Ref(u.gid(cls, self_slot), (cls,))      # receiver fixed by the job (cube split)
    args, variants = [], []
    for d in doms:
        args.append(ab.build(d))
    kwargs = {k: ab.build(d) for k, d in (kwdoms or {}).items()}
    pre_assumptions = pre.type_constraints() + spec.inv_all(pre) + ab.constraints
    if ns_policy:
        for cs in NS.i4(pre, ns_policy).values():
            pre_assumptions += cs
    ctx.path_assumptions = [B(a) for a in pre_assumptions if a is not True]
    if method.startswith("set:"):
        a, owner = mro_lookup(REAL[cls], method[4:])
        fn = a.fset
    elif method.startswith("del:"):
        a, owner = mro_lookup(REAL[cls], method[4:])
        fn = a.fdel
    else:
        fn, owner = mro_lookup(REAL[cls], method)

    # sequences may be passed as a list or as a set (the code branches on isinstance(x, set))
    seq_positions = [i for i, a in enumerate(args) if isinstance(a, tuple) and a and a[0] == "seq"]
    ret = None
    if not seq_positions:
        ret = call_function(ctx, fr, fn, [self_ref] + args, kwargs, owner=owner)
    else:
        i = seq_positions[0]
        _, sl, is_set = args[i]
        g0 = fr.g
        # variant 1: a python list (duplicates allowed)
        fr.g = AND(g0, NOT(is_set))
        a1 = list(args)
        a1[i] = SList(sl.len, sl.el)
        call_function(ctx, fr, fn, [self_ref] + a1, kwargs, owner=owner)
        # variant 2: a python set built from the same elements
        fr.g = AND(g0, is_set)
        a2 = list(args)
        a2[i] = ops.make_set(ctx, fr, SList(sl.len, sl.el))
        call_function(ctx, fr, fn, [self_ref] + a2, kwargs, owner=owner)
        fr.g = g0
    assumptions = pre.type_constraints() + spec.inv_all(pre) + ab.constraints
    if ns_policy:
        for cs in NS.i4(pre, ns_policy).values():
            assumptions += cs
    return dict(pre=pre, post=heap, ctx=ctx, assumptions=[B(a) for a in assumptions if a is not True],
                ab=ab, self_ref=self_ref, args=args, kwargs=kwargs, ret=ret, fn=fn)


# z3 core used for the queries of this process: "default", or "euf" = the new SAT/EUF core of z3 >= 4.12
# (tactic.default_tactic=smt sat.euf=true), which decides the large ite-heavy heap encodings of whole-function
# runs (uniquify driver) in seconds where the default core needs minutes or gives up.  Every `sat` answer is replayed
# on the real code before it is reported; the thorough tier cross-checks `unsat` answers with the default core when
# that core answers within its budget (a disagreement is reported as a harness error).
SOLVER_CORE = os.environ.get("VF_Z3_CORE", "default")
CROSS_CHECK = os.environ.get("VF_Z3_CROSS", "") == "1"
_core_set = [None]


def _set_core(core):
    if _core_set[0] == core:
        return
    if core == "euf":
        z3.set_param("tactic.default_tactic", "smt")
        z3.set_param("sat.euf", True)
    else:
        z3.set_param("tactic.default_tactic", "")
        z3.set_param("sat.euf", False)
    _core_set[0] = core


PORTFOLIO_AFTER_MS = int(os.environ.get("VF_Z3_PORTFOLIO_AFTER_MS", "8000"))
STATS = {"portfolio": 0, "won_by_euf": 0, "won_by_default": 0}


def check(solver_assumptions, goal, timeout_ms=120000):
    """decide (assumptions and goal).  Core selection:
    default (SOLVER_CORE == "default"): the default core alone for a short budget; if it has not answered, a two-core
    portfolio for the full budget -- the default core in this process and the SAT/EUF core in a forked child, first
    definite answer wins (neither core dominates on the heap encodings: each decides in a minute what the other
    does not decide in ten).  "euf": the SAT/EUF core only."""
    if SOLVER_CORE == "euf":
        _set_core("euf")
        r = _check(solver_assumptions, goal, timeout_ms)
        if CROSS_CHECK and r[0] == "unsat":
            _set_core("default")
            r2 = _check(solver_assumptions, goal, min(timeout_ms, 120000))
            _set_core("euf")
            if r2[0] == "sat":
                raise RuntimeError("z3 cores disagree: euf core says unsat, default core says sat")
        return r
    _set_core("default")
    if os.environ.get("VF_Z3_FALLBACK", "1") != "1":
        return _check(solver_assumptions, goal, timeout_ms)
    first = min(timeout_ms, PORTFOLIO_AFTER_MS)
    r = _check(solver_assumptions, goal, first)
    if r[0] != "unknown" or first >= timeout_ms:
        return r
    r2 = _portfolio(solver_assumptions, goal, timeout_ms)
    return (r2[0], r[1] + r2[1], r2[2])


def _portfolio(solver_assumptions, goal, timeout_ms):
    import signal
    import threading
    STATS["portfolio"] += 1
    t0 = time.time()
    rd, wr = os.pipe()
    pid = os.fork()
    if pid == 0:                      # child: the SAT/EUF core on a copy of the formula
        try:
            os.close(rd)
            _set_core("euf")
            res = _check(solver_assumptions, goal, timeout_ms)[0]
            os.write(wr, res.encode())
        except BaseException:
            pass
        finally:
            os._exit(0)
    os.close(wr)
    box = {"child": None, "parent_done": False}

    def waiter():
        try:
            data = os.read(rd, 16).decode()
        except OSError:
            data = ""
        box["child"] = data
        if data in ("sat", "unsat") and not box["parent_done"]:
            z3.main_ctx().interrupt()
    th = threading.Thread(target=waiter, daemon=True)
    th.start()
    try:
        _set_core("default")
        r = _check(solver_assumptions, goal, timeout_ms)
        box["parent_done"] = True
        if r[0] in ("sat", "unsat"):
            STATS["won_by_default"] += 1
            return r
        th.join(timeout=max(1.0, timeout_ms / 1000.0 - (time.time() - t0) + 5))
        child = box["child"]
        if child == "unsat":
            STATS["won_by_euf"] += 1
            return ("unsat", time.time() - t0, None)
        if child == "sat":
            # a model is needed in this process: run the winning core here
            STATS["won_by_euf"] += 1
            _set_core("euf")
            r2 = _check(solver_assumptions, goal, timeout_ms)
            _set_core("default")
            return (r2[0], time.time() - t0, r2[2])
        return ("unknown", time.time() - t0, None)
    finally:
        try:
            os.kill(pid, signal.SIGKILL)
        except OSError:
            pass
        try:
            os.waitpid(pid, 0)
        except OSError:
            pass
        try:
            os.close(rd)
        except OSError:
            pass


def _check(solver_assumptions, goal, timeout_ms=120000):
    s = z3.Solver()
    s.set("timeout", timeout_ms)
    for a in solver_assumptions:
        s.add(a)
    s.add(B(goal))
    t0 = time.time()
    r = s.check()
    return str(r), time.time() - t0, (s.model() if str(r) == "sat" else None)


# ---- listener configurations -----------------------------------------------------------------
from spydrnet.global_state import global_callback as _gc

CONTAINERS = [n for n in vars(_gc) if n.startswith("_container_")]


def listeners_none(ctx):
    for n in CONTAINERS:
        ctx.globals_over[(_gc.__name__, n)] = []


def listeners_recorder(ctx):
    """one side-effect-free listener on every event: records (guard, kind, args, heap snapshot)"""
    for n in CONTAINERS:
        kind = n[len("_container_"):]

        def rec(*a, _kind=kind, **k):
            raise RuntimeError("recorder must be interpreted")
        ctx.globals_over[(_gc.__name__, n)] = [rec]

        def handler(c, fr, args, kwargs, _kind=kind):
            c.events.append((live(c, fr), _kind, list(args), c.h.copy()))
            return None
        ctx.natives[rec] = handler


def listeners_manager(policy):
    """the real NamespaceManager stays registered (its code is interpreted from source); its nested
    dictionaries live in heap.extra['ns']; every element carries .NS == policy (uniform policy)"""
    def prep(ctx):
        from vf.e1 import nsmodel as NS
        from spydrnet.plugins.namespace_manager import NamespaceManager
        ctx.ns_policy = policy
        ctx.ns_policy_cls = NamespaceManager.policies[policy]
        ctx.attr_over[(id(NamespaceManager), "default")] = policy

        def lift_field(obj, k, v):
            if isinstance(obj, NamespaceManager) and k == "namespaces":
                return NS.NSManagerDict()
            return v
        ctx.lift_field = lift_field
    return prep
