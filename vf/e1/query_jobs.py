"""C13: the flat query functions on an arbitrary state: result == scan filtered by an independent matcher."""
import time
import traceback

import z3
from vf.core import result, DISCHARGED, VIOLATED, INCONCLUSIVE, VACUOUS, ERROR, fn_ident
from vf.e1.sym import (Ref, SAtom, ATOMS, NONE_ID, is_sym, ITE, AND, OR, NOT, EQ, NE, LT, B, IMPLIES, Unsupported, mkbool)
from vf.e1.heap import Universe, Heap, SList
from vf.e1.vals import present, to_atom, raw_ref, compact
from vf.e1.interp import Ctx, Frame, call_function
from vf.e1 import mutators as M, spec, replay

NAMES = ("a", "A", "ab", "b")
PATTERNS = ("a", "A", "a*", "*", "?", "*b", "zz")


def ref_match(name, pattern, is_case):
    """independent matcher: * = any run, ? = one character, everything else literal; is_case=False folds case"""
    if not is_case:
        name, pattern = name.lower(), pattern.lower()

    def m(i, j):
        if j == len(pattern):
            return i == len(name)
        if pattern[j] == "*":
            return any(m(k, j + 1) for k in range(i, len(name) + 1))
        return i < len(name) and (pattern[j] == "?" or pattern[j] == name[i]) and m(i + 1, j + 1)
    return m(0, 0)


QUERIES = {
    # query: (module, function, parent class, child class, list field, back pointer)
    "instances": ("spydrnet.util.get_instances", "_get_instances", "Definition", "Instance", "_children", "_parent"),
    "cables": ("spydrnet.util.get_cables", "_get_cables", "Definition", "Cable", "_cables", "_definition"),
    "ports": ("spydrnet.util.get_ports", "_get_ports", "Definition", "Port", "_ports", "_definition"),
    "definitions": ("spydrnet.util.get_definitions", "_get_definitions", "Library", "Definition", "_definitions", "_library"),
}


def flat_query_job(query, tier, timeout_ms=300000):
    """get_<query>(parent, (p1, p2), key=.NAME, is_case=?, is_re=False) from an ARBITRARY well-formed state with distinct
    sibling names: the result is exactly the children of `parent` whose name matches p1 or p2 under an independent
    matcher, none twice -- patterns and names symbolic over small tables, no fast lookup registered."""
    import importlib
    from spydrnet.util.selection import Selection
    modname, fname, PC, CC, lst, back = QUERIES[query]
    fn = getattr(importlib.import_module(modname), fname)
    t0 = time.time()
    name = "C13/%s(parent, patterns)" % fname
    prof = dict(M.PROFILES["quick" if tier == "quick" else "thorough"])
    u = Universe(prof["live"], {}, prof["K"], keys=(".NAME",), atoms=NAMES + PATTERNS)
    pre = Heap.symbolic(u, "s")
    heap = pre.copy()
    ctx = Ctx(heap, M.REAL)
    M.listeners_none(ctx)
    ctx.globals_over[("spydrnet.global_state.global_service", "_registered_lookups")] = {}
    ctx.loop_bound = 6
    fr = Frame(None, True, {})
    kn = 0
    A = pre.type_constraints() + spec.inv_all(pre)
    parent = Ref(z3.Int("parent"), (PC,))
    A.append(u.isin(parent.t, PC))
    A.append(LT(parent.t, u.base[PC] + u.live[PC]))
    name_ids = [ATOMS.intern(n) for n in NAMES]
    pat_ids = [ATOMS.intern(p) for p in PATTERNS]
    n_c = u.live[CC]
    for i in range(n_c):
        pr, v = pre.data[CC][i][kn]
        A.append(IMPLIES(pr, OR(*[EQ(v, a) for a in name_ids])))
        for j in range(i):
            pr2, v2 = pre.data[CC][j][kn]
            same_parent = AND(EQ(pre.sc[(CC, back)][i], pre.sc[(CC, back)][j]), NE(pre.sc[(CC, back)][i], NONE_ID))
            A.append(IMPLIES(AND(same_parent, pr, pr2), NE(v, v2)))     # sibling names distinct (the plug-in's guarantee)
    pats = [SAtom(z3.Int("pattern%d" % k), tuple(pat_ids)) for k in range(2)]
    for p in pats:
        A.append(OR(*[EQ(p.t, a) for a in pat_ids]))
    is_case = z3.Bool("is_case")
    A = [B(a) for a in A if a is not True]
    keep_all = lambda x: True
    ctx.natives[keep_all] = lambda c, f, a, k: True
    args = [SList(1, [parent]), (pats[0], pats[1]), ".NAME", mkbool(is_case), False]
    if query in ("instances", "ports", "cables"):
        args += [Selection.INSIDE] if query != "ports" else []
    import inspect
    params = list(inspect.signature(fn).parameters)
    call_args = []
    for p_ in params:
        call_args.append({"object_collection": SList(1, [parent]), "patterns": (pats[0], pats[1]), "key": ".NAME",
                          "is_case": mkbool(is_case), "is_re": False, "selection": Selection.INSIDE, "recursive": False,
                          "filter_func": keep_all}[p_])
    try:
        res = compact(ops_as_slist(ctx, fr, call_function(ctx, fr, fn, call_args)))
        # the unfiltered result: the same query with the default pattern
        all_args = [("*",) if p_ == "patterns" else (SList(1, [parent]) if p_ == "object_collection" else a_)
                    for p_, a_ in zip(params, call_args)]
        res_all = compact(ops_as_slist(ctx, fr, call_function(ctx, fr, fn, all_args)))
    except Unsupported as e:
        return [result(name, INCONCLUSIVE, "E1/symheap", detail="Unsupported: %s" % e, wall_s=time.time() - t0)]
    cs, nodup, scan = [], [], []
    for i in range(n_c):
        g = u.gid(CC, i)
        pr, v = pre.data[CC][i][kn]
        is_child = AND(EQ(pre.sc[(CC, back)][i], parent.t), spec.exists(pre, CC, i))
        matches = False
        for a, nm in list(zip(name_ids, NAMES)) + [(None, "")]:        # an element without the key has the value ""
            has_value = AND(pr, EQ(v, a)) if a is not None else NOT(pr)
            for p in pats:
                for b, pt in zip(pat_ids, PATTERNS):
                    for ic in (True, False):
                        if ref_match(nm, pt, ic):
                            matches = OR(matches, AND(has_value, EQ(p.t, b), is_case if ic else NOT(is_case)))
        in_all = OR(*[AND(present(res_all, k), EQ(raw_ref(res_all.el[k]), g)) for k in range(res_all.cap)
                      if res_all.el[k] is not None])
        # "the result for a pattern equals the unfiltered result restricted to the elements whose value matches"
        want = AND(in_all, matches)
        scan.append(IMPLIES(AND(is_child, pr), in_all))       # ... and the unfiltered result holds every named child
        scan.append(IMPLIES(in_all, is_child))
        hits = [AND(present(res, k), EQ(raw_ref(res.el[k]), g)) for k in range(res.cap) if res.el[k] is not None]
        cs.append(EQ(OR(*hits), want))
        for x in range(len(hits)):
            for y in range(x):
                nodup.append(NOT(AND(hits[x], hits[y])))
    funcs = sorted(fn_ident(f) for f in ctx.funcs_seen)
    bounds = dict(u.describe(), names=list(NAMES), patterns=list(PATTERNS), patterns_per_query=2,
                  is_case="symbolic", is_re=False, lookup="fallback scan (no fast lookup registered)")
    ok = [B(NOT(ctx.bound)), B(NOT(ctx.exc))]
    tw = {"pre_sat": M.check(A, True, 60000)[0], "returns": M.check(A, AND(NOT(ctx.exc), NOT(ctx.bound)), 120000)[0],
          "two-hits": M.check(A + ok, GE2(res), 120000)[0]}
    if any(v != "sat" for v in tw.values()):
        return [result(name, VACUOUS, "E1/symheap", twins=tw, bounds=bounds, detail="reachability twin failed: %s %s" % (
            tw, sorted(set(ctx.bound_why))[:3]))]
    out = []
    for g, goal in (("result-is-the-unfiltered-result-restricted-to-matching-values", NOT(AND(*cs))),
                    ("unfiltered-result-is-the-children-of-the-parent", NOT(AND(*scan))), ("no-element-twice", NOT(AND(*nodup))),
                    ("never-raises", None)):
        oname = name + "/" + g
        if goal is None:
            st, dt, mdl = M.check(A + [B(NOT(ctx.bound))], ctx.exc, timeout_ms)
        else:
            st, dt, mdl = M.check(A + ok, goal, timeout_ms)
        if st == "unsat":
            out.append(result(oname, DISCHARGED, "E1/symheap", queries=1, solver_s=dt, twins=tw, bounds=bounds,
                              functions=funcs, detail="unsat", wall_s=time.time() - t0, paths=1))
        elif st != "sat":
            out.append(result(oname, INCONCLUSIVE, "E1/symheap", detail="solver: %s" % st, bounds=bounds))
        else:
            state = replay.heap_to_state(pre, mdl)
            rp = {"engine": "E1", "property": "C13", "obligation": oname, "kind": "flat_query", "state": state, "query": query,
                  "parent": replay.mval(mdl, parent.t), "patterns": [ATOMS.vals[replay.mval(mdl, p.t)] for p in pats],
                  "is_case": bool(replay.mval(mdl, is_case))}
            try:
                viol, txt = replay_flat_query(rp)
            except Exception:
                viol, txt = False, "replay crashed: " + traceback.format_exc()[-400:]
            out.append(result(oname, VIOLATED if viol else ERROR, "E1/symheap", queries=1, solver_s=dt, twins=tw,
                              bounds=bounds, functions=funcs, replay=rp if viol else None,
                              detail=txt if viol else "counterexample did not reproduce: " + txt,
                              wall_s=time.time() - t0))
    return out


def GE2(res):
    from vf.e1.sym import GE
    return GE(res.len, 2)


def ops_as_slist(ctx, fr, v):
    from vf.e1 import ops
    return ops.as_slist(ctx, fr, v)


def replay_flat_query(rp):
    import spydrnet as sdn
    with replay.listener_config("none"):
        objs = replay.build(rp["state"])
        built, _ = replay.abstract(objs)
        diffs = replay.states_equal(rp["state"], built)
        if diffs:
            return False, "built state differs from the model: " + "; ".join(diffs[:3])
        parent = objs[rp["parent"]]
        q = getattr(sdn, "get_" + rp["query"])
        got = list(q(parent, rp["patterns"], is_case=rp["is_case"]))
        kids = {"instances": lambda p: p.children, "cables": lambda p: p.cables, "ports": lambda p: p.ports,
                "definitions": lambda p: p.definitions}[rp["query"]](parent)
        unfiltered = list(q(parent))
        want = [k for k in unfiltered if any(ref_match(k.name or "", p, rp["is_case"]) for p in rp["patterns"])]
        bad = sorted(map(id, got)) != sorted(map(id, want)) or any(k.name is not None and k not in unfiltered for k in kids) \
            or any(k not in list(kids) for k in unfiltered)
        return bad, "get_%s(parent, %r, is_case=%s) returned names %s, the children matching are %s (all: %s)" % (
            rp["query"], rp["patterns"], rp["is_case"], [g.name for g in got], [w.name for w in want], [k.name for k in kids])
