"""C19: reference mirror folded over the announced events (independent of the implementation)."""
from vf.e1.sym import (Ref, SInt, SBool, SAtom, ATOMS, NONE_ID, is_sym, ITE, AND, OR, NOT, EQ, NE,
                       LT, IMPLIES, ite_chain)
from vf.e1.heap import OWNERSHIP, FCE, CLASSES
from vf.e1.vals import to_atom
from vf.e1 import spec

CONTAIN = {  # event kind -> (parent class, child class, add?)
    "cable_add_wire": ("Cable", "Wire", True), "cable_remove_wire": ("Cable", "Wire", False),
    "definition_add_port": ("Definition", "Port", True),
    "definition_remove_port": ("Definition", "Port", False),
    "definition_add_child": ("Definition", "Instance", True),
    "definition_remove_child": ("Definition", "Instance", False),
    "definition_add_cable": ("Definition", "Cable", True),
    "definition_remove_cable": ("Definition", "Cable", False),
    "library_add_definition": ("Library", "Definition", True),
    "library_remove_definition": ("Library", "Definition", False),
    "netlist_add_library": ("Netlist", "Library", True),
    "netlist_remove_library": ("Netlist", "Library", False),
    "port_add_pin": ("Port", "InnerPin", True), "port_remove_pin": ("Port", "InnerPin", False),
}
BACK = {(P, C): back for (P, lst, C, back) in OWNERSHIP}


def raw(v):
    if v is None:
        return NONE_ID
    if isinstance(v, Ref):
        return v.t
    raise ValueError(v)


class Mirror:
    """what a listener that merely replays the announcements believes"""

    def __init__(self, pre):
        u = self.u = pre.u
        self.member = {}
        for (P, lst, C, back) in OWNERSHIP:
            self.member[(P, C)] = [[EQ(pre.sc[(C, back)][c], u.gid(P, p)) for c in range(u.n[C])]
                                   for p in range(u.n[P])]
        # connections: inner pins by identity, outer pins by (instance, inner pin)
        self.conn_in = [[EQ(pre.sc[("InnerPin", "_wire")][p], u.gid("Wire", w))
                         for p in range(u.n["InnerPin"])] for w in range(u.n["Wire"])]
        self.conn_out = [[[outer_on_wire(pre, w, i, p) for p in range(u.n["InnerPin"])]
                          for i in range(u.n["Instance"])] for w in range(u.n["Wire"])]
        self.reference = [pre.sc[("Instance", "_reference")][i] for i in range(u.n["Instance"])]
        self.top = [pre.sc[("Netlist", "_top_instance")][n] for n in range(u.n["Netlist"])]
        self.data = {c: [[(pre.data[c][i][k][0], pre.data[c][i][k][1]) for k in range(len(u.keys))]
                         for i in range(u.n[c])] for c in FCE}

    def apply(self, g, kind, args, snap):
        u = self.u
        if kind in CONTAIN:
            P, C, add = CONTAIN[kind]
            pt, ct = raw(args[0]), raw(args[1])
            m = self.member[(P, C)]
            for p in range(u.n[P]):
                for c in range(u.n[C]):
                    hit = AND(g, EQ(pt, u.gid(P, p)), EQ(ct, u.gid(C, c)))
                    if hit is not False:
                        m[p][c] = ITE(hit, add, m[p][c])
            return
        if kind in ("wire_connect_pin", "wire_disconnect_pin"):
            add = kind == "wire_connect_pin"
            wt, pt = raw(args[0]), raw(args[1])
            for w in range(u.n["Wire"]):
                cw = EQ(wt, u.gid("Wire", w))
                if cw is False:
                    continue
                for p in range(u.n["InnerPin"]):
                    hit = AND(g, cw, EQ(pt, u.gid("InnerPin", p)))
                    if hit is not False:
                        self.conn_in[w][p] = ITE(hit, add, self.conn_in[w][p])
                # outer pin (stored or proxy): identified by the pair it names at emission time
                inst = ite_chain(pt, u.ids("OuterPin"), snap.sc[("OuterPin", "_instance")], NONE_ID)
                ip = ite_chain(pt, u.ids("OuterPin"), snap.sc[("OuterPin", "_inner_pin")], NONE_ID)
                isop = u.isin(pt, "OuterPin")
                for i in range(u.n["Instance"]):
                    for p in range(u.n["InnerPin"]):
                        hit = AND(g, cw, isop, EQ(inst, u.gid("Instance", i)),
                                  EQ(ip, u.gid("InnerPin", p)))
                        if hit is not False:
                            self.conn_out[w][i][p] = ITE(hit, add, self.conn_out[w][i][p])
            return
        if kind == "instance_reference":
            it, dt = raw(args[0]), raw(args[1])
            for i in range(u.n["Instance"]):
                hit = AND(g, EQ(it, u.gid("Instance", i)))
                if hit is not False:
                    self.reference[i] = ITE(hit, dt, self.reference[i])
            return
        if kind == "netlist_top_instance":
            nt, it = raw(args[0]), raw(args[1])
            for n in range(u.n["Netlist"]):
                hit = AND(g, EQ(nt, u.gid("Netlist", n)))
                if hit is not False:
                    self.top[n] = ITE(hit, it, self.top[n])
            return
        if kind in ("dictionary_set", "dictionary_delete", "dictionary_pop"):
            et = raw(args[0])
            key = args[1]
            rows = []
            if isinstance(key, SAtom):
                for a in key.dom:
                    s = ATOMS.vals[a]
                    if s in u.keys:
                        rows.append((u.keys.index(s), EQ(key.t, a)))
            elif key in u.keys:
                rows.append((u.keys.index(key), True))
            for c in FCE:
                for i in range(u.n[c]):
                    ce = EQ(et, u.gid(c, i))
                    if ce is False:
                        continue
                    for k, ck in rows:
                        hit = AND(g, ce, ck)
                        if hit is False:
                            continue
                        pr, v = self.data[c][i][k]
                        if kind == "dictionary_set":
                            self.data[c][i][k] = (ITE(hit, True, pr), ITE(hit, to_atom(args[2]).t, v))
                        else:
                            self.data[c][i][k] = (ITE(hit, False, pr), v)
            return
        # create_* : no structural content


def outer_on_wire(h, w, i, p):
    u = h.u
    v = h.pinmap[i][p]
    ow = ite_chain(v, u.ids("OuterPin"), h.sc[("OuterPin", "_wire")], NONE_ID)
    return AND(NE(v, NONE_ID), EQ(ow, u.gid("Wire", w)))


def mirror_groups(mir, post, skip_outer=False):
    """mirror == real post-state (containment as sets, connections, references, top, data)"""
    u = post.u
    g = {}

    def add(name, c):
        if c is not True:
            g.setdefault(name, []).append(c)
    for (P, lst, C, back) in OWNERSHIP:
        for p in range(u.n[P]):
            for c in range(u.n[C]):
                ex = AND(spec.exists(post, P, p), spec.exists(post, C, c))
                real = EQ(post.sc[(C, back)][c], u.gid(P, p))
                add("mirror:%s.%s" % (P, lst), IMPLIES(ex, EQ(mir.member[(P, C)][p][c], real)))
    for w in range(u.n["Wire"]):
        for p in range(u.n["InnerPin"]):
            ex = AND(spec.exists(post, "Wire", w), spec.exists(post, "InnerPin", p))
            add("mirror:connections-inner", IMPLIES(ex, EQ(mir.conn_in[w][p], EQ(
                post.sc[("InnerPin", "_wire")][p], u.gid("Wire", w)))))
        if not skip_outer:
            for i in range(u.n["Instance"]):
                for p in range(u.n["InnerPin"]):
                    ex = AND(spec.exists(post, "Wire", w), spec.exists(post, "Instance", i))
                    add("mirror:connections-outer",
                        IMPLIES(ex, EQ(mir.conn_out[w][i][p], outer_on_wire(post, w, i, p))))
    for i in range(u.n["Instance"]):
        add("mirror:references", IMPLIES(spec.exists(post, "Instance", i),
                                         EQ(mir.reference[i], post.sc[("Instance", "_reference")][i])))
    for n in range(u.n["Netlist"]):
        add("mirror:top-instance", IMPLIES(spec.exists(post, "Netlist", n),
                                           EQ(mir.top[n], post.sc[("Netlist", "_top_instance")][n])))
    for c in FCE:
        for i in range(u.n[c]):
            for k in range(len(u.keys)):
                pr, v = post.data[c][i][k]
                mp, mv = mir.data[c][i][k]
                ex = spec.exists(post, c, i)
                add("mirror:data", IMPLIES(ex, AND(EQ(mp, pr), IMPLIES(pr, EQ(mv, v)))))
    return g


def before_clauses(events):
    """at emission, the announced change is not visible yet in the heap snapshot"""
    out = []
    for g, kind, args, snap in events:
        u = snap.u
        if kind in CONTAIN:
            P, C, add = CONTAIN[kind]
            back = BACK[(P, C)]
            pt, ct = raw(args[0]), raw(args[1])
            cur = ite_chain(ct, u.ids(C), snap.sc[(C, back)], NONE_ID)
            ok = NE(cur, pt) if add else EQ(cur, pt)
            out.append(IMPLIES(AND(g, u.isin(ct, C)), ok))
        elif kind == "wire_connect_pin":
            wt, pt = raw(args[0]), raw(args[1])
            # the pin that the announcement identifies: an inner pin, or for an outer pin (stored
            # or proxy) the pin its instance holds for that inner pin -- a proxy's own _wire field
            # is not netlist state
            cur = ite_chain(pt, u.ids("InnerPin"), snap.sc[("InnerPin", "_wire")], NONE_ID)
            inst = ite_chain(pt, u.ids("OuterPin"), snap.sc[("OuterPin", "_instance")], NONE_ID)
            ip = ite_chain(pt, u.ids("OuterPin"), snap.sc[("OuterPin", "_inner_pin")], NONE_ID)
            held = NONE_ID
            for i in range(u.n["Instance"]):
                for p in range(u.n["InnerPin"]):
                    held = ITE(AND(EQ(inst, u.gid("Instance", i)), EQ(ip, u.gid("InnerPin", p))),
                               snap.pinmap[i][p], held)
            cur_o = ite_chain(held, u.ids("OuterPin"), snap.sc[("OuterPin", "_wire")], NONE_ID)
            cur = ITE(u.isin(pt, "OuterPin"), cur_o, cur)
            out.append(IMPLIES(AND(g, NE(pt, NONE_ID)), NE(cur, wt)))
    return [x for x in out if x is not True]
