"""Container values and generic value operations (merge, truthiness, equality hooks)."""
import z3
from vf.e1.sym import (Ref, SInt, SBool, SAtom, ATOMS, NONE_ID, is_sym, ITE, AND, OR, NOT, EQ, NE,
                       LT, LE, GE, GT, ADD, SUB, MIN, MAX, B, I, ite_chain, Unsupported, mkbool,
                       mkint, atom_of, atom_concrete, lift, IMPLIES)
from vf.e1.heap import SList


class Local:
    """small non-IR python object (views, HRef, parser self, ...): record of fields"""

    def __init__(self, cls, fields=None):
        self.cls = cls
        self.f = dict(fields or {})

    def __repr__(self):
        return "Local(%s,%s)" % (self.cls.__name__, list(self.f))


class BoundMethod:
    def __init__(self, fn, selfv, owner):
        self.fn, self.selfv, self.owner = fn, selfv, owner


class RefMethod:
    """method looked up on a symbolic IR reference: impls = [(function, owner class, [class names])]"""

    def __init__(self, ref, name, impls):
        self.ref, self.name, self.impls = ref, name, impls


class SymMethod:
    """method of a symbolic container value"""

    def __init__(self, obj, name):
        self.obj, self.name = obj, name


class SuperProxy:
    def __init__(self, selfv, owner):
        self.selfv, self.owner = selfv, owner


class HeapSet:
    """alias of Definition._references of (possibly symbolic) definition reference"""

    def __init__(self, dref):
        self.dref = dref


class PinMap:
    """alias of Instance._pins of a (possibly symbolic) instance reference"""

    def __init__(self, iref):
        self.iref = iref


class HeapData:
    """alias of FirstClassElement._data"""

    def __init__(self, ref):
        self.ref = ref


class SOpt:
    """None-or-value for scalar kinds that have no in-band None (ints)"""

    def __init__(self, isnone, val):
        self.isnone, self.val = isnone, val


class SGen:
    """a generator object: can be iterated ONCE (python generators are exhausted after the first full pass)"""

    def __init__(self, sl):
        self.sl = sl
        self.consumed = False      # raw bool


class SText:
    """a text whose content is not tabulated: an immutable rope (DAG) over concrete strings, label atoms,
    small integers and guarded alternatives.  Used where code builds output text from symbolic parts and
    the obligations need the text only up to equality (C16: non-interference and repeatability of writers).
    kind: "leaf" (a: str | SAtom | SInt), "cat" (a, b ropes), "cond" (c raw bool, a, b ropes-or-None)"""
    __slots__ = ("kind", "c", "a", "b")

    def __init__(self, kind, a, b=None, c=None):
        self.kind, self.a, self.b, self.c = kind, a, b, c

    def __repr__(self):
        return "SText(%s)" % self.kind

    @staticmethod
    def of(v):
        return v if isinstance(v, SText) else SText("leaf", v)

    @staticmethod
    def cat(x, y):
        if isinstance(x, str) and isinstance(y, str):
            return x + y
        if isinstance(x, str) and x == "":
            return y
        if isinstance(y, str) and y == "":
            return x
        return SText("cat", SText.of(x), SText.of(y))


def text_eq(x, y, memo=None):
    """sufficient condition (raw bool) for two ropes to denote the same text: same shape, equal leaves.
    Two runs of the same deterministic code build ropes of the same shape; anything else is reported unequal."""
    memo = {} if memo is None else memo
    if x is y:
        return True
    key = (id(x), id(y))
    if key in memo:
        return memo[key]
    if x is None or y is None:
        r = x is None and y is None
    elif not isinstance(x, SText) and not isinstance(y, SText):
        r = _leaf_eq(x, y)
    else:
        x, y = SText.of(x), SText.of(y)
        if x.kind != y.kind:
            r = _flat_eq(x, y)
        elif x.kind == "leaf":
            r = _leaf_eq(x.a, y.a)
        elif x.kind == "cat":
            r = AND(text_eq(x.a, y.a, memo), text_eq(x.b, y.b, memo))
            if r is False:
                r = _flat_eq(x, y)
        else:
            r = AND(EQ(x.c, y.c), IMPLIES(x.c, text_eq(x.a, y.a, memo)), IMPLIES(NOT(x.c), text_eq(x.b, y.b, memo)))
    memo[key] = r
    return r


def _leaf_eq(a, b):
    if isinstance(a, tuple) or isinstance(b, tuple):
        if isinstance(a, tuple) and isinstance(b, tuple) and a[0] == b[0] == "rep" and a[1] == b[1]:
            return EQ(raw_int(a[2]), raw_int(b[2]))
        return False
    if isinstance(a, SInt) or isinstance(b, SInt) or (isinstance(a, int) and isinstance(b, int)):
        if isinstance(a, (int, SInt)) and isinstance(b, (int, SInt)):
            return EQ(raw_int(a), raw_int(b))
        return False
    if isinstance(a, (str, SAtom)) and isinstance(b, (str, SAtom)):
        return EQ(to_atom(a).t, to_atom(b).t)
    return False


def _flatten(x, out):
    if isinstance(x, SText) and x.kind == "cat":
        _flatten(x.a, out)
        _flatten(x.b, out)
    elif isinstance(x, SText) and x.kind == "leaf":
        _flatten(x.a, out)
    elif isinstance(x, str) and out and isinstance(out[-1], str):
        out[-1] = out[-1] + x
    else:
        out.append(x)
    return out


def _flat_eq(x, y):
    fx, fy = _flatten(x, []), _flatten(y, [])
    if len(fx) != len(fy):
        return False
    return AND(*[text_eq(p, q) if isinstance(p, SText) or isinstance(q, SText) else _leaf_eq(p, q)
                 for p, q in zip(fx, fy)])


class PyIter:
    """iterator over an SList (for iter()/next())"""

    def __init__(self, sl):
        self.sl, self.pos = sl, 0


# ------------------------------------------------------------------------------------------------
def raw_bool(v):
    if isinstance(v, SBool):
        return v.t
    return v


def raw_int(v):
    if isinstance(v, SInt):
        return v.t
    if isinstance(v, SOpt):      # the caller is on a path where the value is not None
        return raw_int(v.val)
    if isinstance(v, bool):
        return 1 if v else 0
    if isinstance(v, int) or is_sym(v):
        return v
    raise Unsupported("int expected, got %r" % (v,))


def raw_ref(v):
    if v is None:
        return NONE_ID
    if isinstance(v, Ref):
        return v.t
    raise Unsupported("reference expected, got %r" % (v,))


def to_atom(v):
    if isinstance(v, SAtom):
        return v
    if isinstance(v, (Ref, SInt, SBool, SList, Local, SOpt, HeapSet, PinMap, HeapData, BoundMethod,
                      RefMethod, SymMethod, list, dict, set)):
        raise Unsupported("atom expected, got %r" % (v,))
    import enum
    from vf.e1.hier import HPath
    if v is None or isinstance(v, (str, int, bool, type, enum.Enum, HPath)):
        return atom_of(v)
    raise Unsupported("atom expected, got %r" % (v,))


def merge(c, a, b):
    """value of `a if c else b`"""
    if c is True:
        return a
    if c is False:
        return b
    if a is b:
        return a
    if isinstance(a, SText) or isinstance(b, SText):
        if isinstance(a, (SText, str, SAtom, type(None))) and isinstance(b, (SText, str, SAtom, type(None))):
            return SText("cond", a, b, c)
    ta, tb = type(a), type(b)
    from vf.e1.hier import HPath as _HP
    if isinstance(a, _HP) or isinstance(b, _HP):
        if isinstance(a, _HP) and isinstance(b, _HP) and a == b:
            return a
        aa, bb = to_atom(a), to_atom(b)
        return SAtom(ITE(c, aa.t, bb.t), aa.dom + bb.dom)
    if isinstance(a, (bool, SBool)) and isinstance(b, (bool, SBool)):
        return mkbool(ITE(c, raw_bool(a), raw_bool(b)))
    if isinstance(a, (int, SInt)) and isinstance(b, (int, SInt)) and not isinstance(a, bool) \
            and not isinstance(b, bool):
        return mkint(ITE(c, raw_int(a), raw_int(b)))
    from vf.e1 import nsmodel as _NS
    if isinstance(a, (_NS.NSObj, type(None))) and isinstance(b, (_NS.NSObj, type(None))) and (
            a is not None or b is not None):
        return _NS.NSObj(ITE(c, NONE_ID if a is None else a.t, NONE_ID if b is None else b.t))
    if isinstance(a, (Ref, type(None))) and isinstance(b, (Ref, type(None))):
        ca = a.cands if a is not None else frozenset()
        cb = b.cands if b is not None else frozenset()
        return Ref(ITE(c, raw_ref(a), raw_ref(b)), ca | cb)
    if isinstance(a, (str, SAtom, type(None))) and isinstance(b, (str, SAtom, type(None))):
        if not isinstance(a, SAtom) and not isinstance(b, SAtom) and a == b:
            return a
        aa, bb = to_atom(a), to_atom(b)
        return SAtom(ITE(c, aa.t, bb.t), aa.dom + bb.dom)
    if isinstance(a, SAtom) or isinstance(b, SAtom):
        try:
            aa, bb = to_atom(a), to_atom(b)
            return SAtom(ITE(c, aa.t, bb.t), aa.dom + bb.dom)
        except (Unsupported, TypeError):
            pass
    if isinstance(a, tuple) and isinstance(b, tuple) and len(a) == len(b):
        return tuple(merge(c, x, y) for x, y in zip(a, b))
    if isinstance(a, SList) and isinstance(b, SList):
        n = max(a.cap, b.cap)
        el = []
        for k in range(n):
            x = a.el[k] if k < a.cap else None
            y = b.el[k] if k < b.cap else None
            if x is None and k >= a.cap:
                x = y
            if y is None and k >= b.cap:
                y = x
            el.append(merge(c, x, y))
        return SList(ITE(c, a.len, b.len), el, None, a.is_set and b.is_set)
    if isinstance(a, Local) and isinstance(b, Local) and a.cls is b.cls:
        return Local(a.cls, {k: merge(c, a.f.get(k), b.f.get(k)) for k in set(a.f) | set(b.f)})
    if isinstance(a, (int, SInt)) and not isinstance(a, bool) and b is None:
        return SOpt(NOT(c), a)
    if a is None and isinstance(b, (int, SInt)) and not isinstance(b, bool):
        return SOpt(c, b)
    if isinstance(a, SOpt) or isinstance(b, SOpt):
        ao = a if isinstance(a, SOpt) else SOpt(a is None, 0 if a is None else a)
        bo = b if isinstance(b, SOpt) else SOpt(b is None, 0 if b is None else b)
        return SOpt(ITE(c, ao.isnone, bo.isnone), merge(c, ao.val, bo.val))
    if ta is tb and not isinstance(a, (Ref, SInt, SBool, SAtom, SList, Local)):
        try:
            if a == b:
                return a
        except Exception:
            pass
    # heterogeneous python constants (e.g. class objects, enum members): atoms
    try:
        aa, bb = to_atom(a), to_atom(b)
        return SAtom(ITE(c, aa.t, bb.t), aa.dom + bb.dom)
    except Exception:
        raise Unsupported("cannot merge %r and %r" % (a, b))


def truth(v):
    """python truthiness -> raw bool"""
    if v is None:
        return False
    if isinstance(v, bool):
        return v
    if isinstance(v, SBool):
        return v.t
    if isinstance(v, int):
        return v != 0
    if isinstance(v, SInt):
        return NE(v.t, 0)
    if isinstance(v, Ref):
        return NE(v.t, NONE_ID)      # IR objects define no __bool__/__len__
    if isinstance(v, SList):
        return GT(seq_len(v), 0)
    if isinstance(v, str):
        return len(v) > 0
    if isinstance(v, SAtom):
        r, _ = lift(lambda x: bool(x), v)
        return raw_bool(r)
    if isinstance(v, SOpt):
        return AND(NOT(v.isnone), truth(v.val))
    if isinstance(v, SText):
        raise Unsupported("truthiness of a text rope")
    if isinstance(v, Local):
        return "local"      # needs __bool__/__len__ dispatch by the interpreter
    if isinstance(v, (tuple, list, dict, set, frozenset)):
        return len(v) > 0
    if isinstance(v, (HeapSet, PinMap, HeapData, PyIter)) or type(v).__name__ == "SDict":
        raise Unsupported("truthiness of %r must go through truth_of" % (v,))
    return bool(v)


# ------------------------------------------------------------------------------------------------
# sequences.  SList.len counts *slots in use*; an optional mask marks holes (sparse sequences made
# by filtering); seq_len is the number of present elements.
def present(sl, k):
    p = LT(k, sl.len)
    if sl.mask is not None:
        p = AND(p, sl.mask[k])
    return p


def getattr_mask(sl):
    return sl.mask


def set_mask(sl, mask):
    sl.mask = list(mask)


def seq_len(sl):
    if getattr_mask(sl) is None:
        return sl.len
    n = 0
    for k in range(sl.cap):
        n = ADD(n, ITE(present(sl, k), 1, 0))
    return n


def compact(sl):
    """dense copy of a (possibly masked) sequence"""
    if getattr_mask(sl) is None:
        return sl
    K = sl.cap
    pres = [present(sl, k) for k in range(K)]
    rank, r = [], 0
    for k in range(K):
        rank.append(r)
        r = ADD(r, ITE(pres[k], 1, 0))
    el = []
    for j in range(K):
        v = None
        for k in reversed(range(j, K)):
            cond = AND(pres[k], EQ(rank[k], j))
            if cond is False:
                continue
            v = sl.el[k] if v is None else merge(cond, sl.el[k], v)
        if v is None:
            v = sl.el[j] if j < K else None
        el.append(v)
    return SList(r, el, None, sl.is_set)


def from_pylist(vals, cap=None):
    vals = list(vals)
    cap = max(cap or 0, len(vals))
    fill = vals[-1] if vals else None
    return SList(len(vals), vals + [fill] * (cap - len(vals)))
