"""E1 jobs on the parsers: C15 policy restoration with nondeterministic construct parsers."""
import ast
import inspect
import time

import z3
from vf.core import result, DISCHARGED, VIOLATED, INCONCLUSIVE, VACUOUS, ERROR, KNOWN, fn_ident, findings_for
from vf.e1.sym import (Ref, SAtom, ATOMS, AND, OR, NOT, EQ, NE, B, Unsupported, is_sym, atom_of)
from vf.e1.heap import Universe, Heap
from vf.e1.vals import Local, to_atom
from vf.e1.interp import Ctx, Frame, call_function, mro_lookup, raise_if, live
from vf.e1 import mutators as M

PARSERS = {
    "edif": ("spydrnet.parsers.edif.parser", "EdifParser", ["parse_construct"], ["initialize_tokenizer"]),
    "verilog": ("spydrnet.parsers.verilog.parser", "VerilogParser", ["parse_verilog"], ["initialize_tokenizer"]),
    "eblif": ("spydrnet.parsers.eblif.eblif_parser", "EBLIFParser", ["parse_eblif"], ["create_tokenizer"]),
}


def assigns_default_elsewhere(mod, cls, allowed):
    """side condition of the stub: no function of the parser module other than `allowed` assigns
    namespace_manager.default (so the stubbed construct parsers cannot change it themselves).  A helper that is
    called ONLY from the allowed functions is interpreted together with them and may assign it."""
    tree = ast.parse(inspect.getsource(mod))
    funcs = [n for n in ast.walk(tree) if isinstance(n, ast.FunctionDef)]

    def callee_name(c):
        f = c.func
        return f.id if isinstance(f, ast.Name) else (f.attr if isinstance(f, ast.Attribute) else None)
    callers = {}
    for fn in funcs:
        for sub in ast.walk(fn):
            if isinstance(sub, ast.Call) and callee_name(sub):
                callers.setdefault(callee_name(sub), set()).add(fn.name)
    allowed = set(allowed)
    changed = True
    while changed:
        changed = False
        for fn in funcs:
            if fn.name not in allowed and callers.get(fn.name) and callers[fn.name] <= allowed:
                allowed.add(fn.name)
                changed = True
    bad = []
    for node in funcs:
        for sub in ast.walk(node):
            tgts = []
            if isinstance(sub, ast.Assign):
                tgts = sub.targets
            elif isinstance(sub, (ast.AugAssign, ast.AnnAssign)):
                tgts = [sub.target]
            for t in tgts:
                if isinstance(t, ast.Attribute) and t.attr == "default" and node.name not in allowed:
                    bad.append("%s:%d" % (node.name, sub.lineno))
            if isinstance(sub, ast.Call) and callee_name(sub) == "setattr" and node.name not in allowed and \
                    len(sub.args) >= 2 and isinstance(sub.args[1], ast.Constant) and sub.args[1].value == "default":
                bad.append("%s:%d" % (node.name, sub.lineno))
    return bad


def policy_job(which, tier):
    import importlib
    t0 = time.time()
    modname, clsname, construct, inits = PARSERS[which]
    mod = importlib.import_module(modname)
    cls = getattr(mod, clsname)
    name = "C15/%s.parse/policy-restored-on-every-exit" % clsname
    bad = assigns_default_elsewhere(mod, cls, {"parse"})
    if bad:
        return [result(name, INCONCLUSIVE, "E1/symheap", detail="stub side condition fails: %s assign "
                       "namespace_manager.default" % bad)]
    u = Universe(dict(Netlist=1), {}, 2)
    ctx = Ctx(Heap.symbolic(u), M.REAL)
    fr = Frame(None, True, {})
    fail = z3.Bool("construct_parser_raises")
    kind = z3.Int("exception_kind")

    def nondet(c, f, args, kwargs):
        # may raise any exception at the call, or return some netlist
        raise_if(c, f, AND(fail, kind == 0), "AssertionError")
        raise_if(c, f, AND(fail, kind == 1), "ValueError")
        raise_if(c, f, AND(fail, kind != 0, kind != 1), "Other")
        return Ref(u.gid("Netlist", 0), ("Netlist",))

    def noop(c, f, args, kwargs):
        return None
    for n in construct:
        ctx.stubs[getattr(cls, n)] = nondet
    for n in inits:
        ctx.stubs[getattr(cls, n)] = noop
    from spydrnet.plugins import namespace_manager as nm
    from vf.e1.calls import lift_object
    mgr = lift_object(ctx, nm)
    before = SAtom(z3.Int("policy_before"), [ATOMS.intern("DEFAULT"), ATOMS.intern("EDIF")])
    mgr.f["default"] = before
    selfv = Local(cls, {"tokenizer": Local(TokStub, {}), "filename": None, "file_handle": None,
                        "netlist": None})
    ctx.local_classes = (TokStub,)
    try:
        call_function(ctx, fr, cls.parse, [selfv], owner=cls)
    except Unsupported as e:
        return [result(name, INCONCLUSIVE, "E1/symheap", detail="Unsupported: %s" % e)]
    after = mgr.f["default"]
    same = EQ(to_atom(after).t, before.t)
    dom = [OR(before.t == before.dom[0], before.t == before.dom[1])]
    res = []
    tw = {}
    for nm_, goal in (("returns", NOT(ctx.exc)), ("raises", ctx.exc)):
        tw[nm_] = M.check(dom, goal, 30000)[0]
    funcs = sorted(fn_ident(f) for f in ctx.funcs_seen)
    bounds = {"stub": "%s may return or raise AssertionError/ValueError/any other exception at the call; "
                      "tokenizer set-up and tear-down are no-ops" % construct,
              "policy_before": "DEFAULT or EDIF (symbolic)"}
    known = findings_for("C15", name)
    for exit_name, cond in (("normal-return", NOT(ctx.exc)), ("exception", ctx.exc)):
        oname = name + "[" + exit_name + "]"
        st, dt, mdl = M.check(dom + [B(cond)], NOT(same), 60000)
        if st == "unsat":
            res.append(result(oname, DISCHARGED, "E1/symheap", queries=3, solver_s=dt, twins=tw,
                              bounds=bounds, functions=funcs, detail="unsat", wall_s=time.time() - t0))
            continue
        if st != "sat":
            res.append(result(oname, INCONCLUSIVE, "E1/symheap", detail="solver: %s" % st))
            continue
        pb = ATOMS.vals[mdl.eval(before.t, model_completion=True).as_long()]
        rp = {"engine": "E1", "property": "C15", "obligation": oname, "kind": "policy", "parser": which,
              "policy_before": pb, "fail": exit_name == "exception"}
        viol, txt = replay_policy(rp)
        if not viol:
            res.append(result(oname, ERROR, "E1/symheap", detail="counterexample did not reproduce: " + txt))
            continue
        kf = [f for f in findings_for("C15", oname)]
        if kf:
            res.append(result(oname + "#" + kf[0]["id"], KNOWN, "E1/symheap", finding=kf[0]["id"],
                              detail="%s (%s)" % (kf[0]["what"], txt), queries=1, bounds=bounds))
            continue
        res.append(result(oname, VIOLATED, "E1/symheap", queries=3, solver_s=dt, twins=tw, bounds=bounds,
                          functions=funcs, detail=txt, cex=rp, replay=rp, wall_s=time.time() - t0))
    return res


class TokStub:
    def __del__(self):
        pass

    def close(self):
        pass


def replay_policy(rp):
    """real parser on a real (rejected or accepted) file; the policy must be what it was before"""
    import os
    import tempfile
    import spydrnet as sdn
    from spydrnet.plugins import namespace_manager as nm
    good = {"edif": "(edif a (edifVersion 2 0 0) (edifLevel 0) (keywordMap (keywordLevel 0)) (status) "
                    "(library work (edifLevel 0) (technology (numberDefinition)) (cell c (celltype GENERIC) "
                    "(view netlist (viewtype NETLIST) (interface)))) (design top (cellRef c (libraryRef work))))",
            "verilog": "module top(a);\n input a;\nendmodule\n",
            "eblif": ".model top\n.inputs a\n.outputs b\n.end\n"}
    badtxt = {"edif": "(edif a (edifVersion 2 0 0) (bogus", "verilog": "module top(a; input endmodule module",
              "eblif": ".model top\n.subckt\n"}
    ext = {"edif": ".edf", "verilog": ".v", "eblif": ".eblif"}[rp["parser"]]
    saved = nm.default
    d = tempfile.mkdtemp(prefix="vf_c15_")
    try:
        nm.default = rp["policy_before"]
        p = os.path.join(d, "x" + ext)
        open(p, "w").write(badtxt[rp["parser"]] if rp["fail"] else good[rp["parser"]])
        raised = None
        try:
            sdn.parse(p)
        except BaseException as e:
            raised = e
        after = nm.default
        txt = "sdn.parse(%s file) %s; namespace_manager.default before=%r after=%r" % (
            "a rejected" if rp["fail"] else "an accepted", "raised %s" % type(raised).__name__ if raised
            else "returned", rp["policy_before"], after)
        if rp["fail"] and raised is None:
            return False, "the corrupted file was not rejected: " + txt
        return after != rp["policy_before"], txt
    finally:
        nm.default = saved
        import shutil
        shutil.rmtree(d, ignore_errors=True)
