"""Translator validation (differential, every run): random concrete states and calls are executed
on the REAL classes and by the E1 interpreter on the same concrete heap; post-state, exception
status and (optionally) events must agree.  This validates the encoding; it is not evidence
for any property."""
import random
import time
import traceback

import spydrnet as sdn
from vf.e1.sym import Ref, SInt, SBool, SAtom, ATOMS, NONE_ID, is_sym, Unsupported, atom_of
from vf.e1.heap import Universe, Heap, CLASSES, SCALARS, LISTS, FCE, SList
from vf.e1.vals import SOpt
from vf.e1.interp import Ctx, Frame, call_function, mro_lookup
from vf.e1 import mutators as M, replay, ops

LIVE = dict(Netlist=1, Library=2, Definition=3, Port=4, Cable=3, Wire=4, Instance=3, InnerPin=6,
            OuterPin=12)
FRESH = dict(Netlist=0, Library=1, Definition=1, Port=1, Cable=1, Wire=3, Instance=1, InnerPin=3,
             OuterPin=12)
KCAP = 6


def random_state(rng):
    """build a random netlist through the public API (listeners off); returns {gid: obj}"""
    u = Universe(LIVE, FRESH, KCAP)
    objs = {}
    pools = {c: [] for c in CLASSES}

    def new(c, *a):
        if len(pools[c]) >= LIVE[c]:
            return None
        o = getattr(sdn, c)(*a)
        pools[c].append(o)
        return o
    n = new("Netlist")
    libs = [new("Library") for _ in range(rng.randint(1, 2))]
    for l in libs:
        if rng.random() < 0.8:
            n.add_library(l)
    defs = [new("Definition") for _ in range(rng.randint(2, 3))]
    for d in defs:
        if rng.random() < 0.8:
            rng.choice(libs).add_definition(d)
    for _ in range(rng.randint(2, 4)):
        p = new("Port")
        if p is None:
            break
        for _ in range(rng.randint(0, 2)):
            ip = new("InnerPin")
            if ip is not None:
                p.add_pin(ip)
        if rng.random() < 0.8:
            rng.choice(defs).add_port(p)
        p.direction = rng.choice(list(sdn.Port.Direction))
        if rng.random() < 0.3:
            p["ukey"] = rng.choice(["a", "b"])
    for _ in range(rng.randint(1, 3)):
        c = new("Cable")
        if c is None:
            break
        for _ in range(rng.randint(0, 2)):
            w = new("Wire")
            if w is not None:
                c.add_wire(w)
        if rng.random() < 0.8:
            rng.choice(defs).add_cable(c)
    for _ in range(rng.randint(1, 3)):
        i = new("Instance")
        if i is None:
            break
        if rng.random() < 0.8:
            i.reference = rng.choice(defs)
        if rng.random() < 0.7:
            rng.choice(defs).add_child(i)
        if rng.random() < 0.4:
            i.name = rng.choice(["a", "b"])
    for i in pools["Instance"]:
        for op in i._pins.values():
            if len(pools["OuterPin"]) < LIVE["OuterPin"]:
                pools["OuterPin"].append(op)
    # a few proxies / floating pins
    for _ in range(rng.randint(0, 2)):
        if len(pools["OuterPin"]) < LIVE["OuterPin"] and pools["Instance"] and pools["InnerPin"]:
            pools["OuterPin"].append(sdn.OuterPin(rng.choice(pools["Instance"] + [None]),
                                                  rng.choice(pools["InnerPin"] + [None])))
    stored = [op for i in pools["Instance"] for op in i._pins.values() if any(op is x for x in pools["OuterPin"])]
    for w in pools["Wire"]:
        for _ in range(rng.randint(0, 2)):
            cand = [p for p in pools["InnerPin"] + stored if p.wire is None]
            if cand and len(w.pins) < KCAP - 1:
                w.connect_pin(rng.choice(cand))
    if pools["Instance"] and rng.random() < 0.5:
        n.top_instance = rng.choice(pools["Instance"])
    for c in CLASSES:
        for k, o in enumerate(pools[c]):
            objs[u.gid(c, k)] = o
    # every stored outer pin must have a slot, else the state is not representable
    for i in pools["Instance"]:
        for op in i._pins.values():
            if not any(op is x for x in pools["OuterPin"]):
                return None, None
    return u, objs


def heap_from_objs(u, objs):
    h = Heap.blank(u)
    ids = {id(o): g for g, o in objs.items()}
    gid = lambda o: NONE_ID if o is None else ids[id(o)]
    for g, o in objs.items():
        c, i = u.cls_of(g)
        for f, kind in SCALARS[c].items():
            v = getattr(o, f)
            if isinstance(kind, tuple):
                v = gid(v)
            elif kind == "enum":
                v = ATOMS.intern(v)
            h.sc[(c, f)][i] = v
        for f in LISTS.get(c, {}):
            lst = [gid(x) for x in getattr(o, f)]
            cap = u.cap(c, f)
            h.ls[(c, f)][i] = (len(lst), lst + [NONE_ID] * (cap - len(lst)))
        if c == "Definition":
            for x in o._references:
                h.refs[i][u.cls_of(gid(x))[1]] = True
        if c == "Instance":
            for k, v in o._pins.items():
                h.pinmap[i][u.cls_of(gid(k))[1]] = gid(v)
        if c in FCE:
            for k, v in o._data.items():
                if k in u.keys:
                    h.data[c][i][u.keys.index(k)] = (True, ATOMS.intern(v))
    for c in CLASSES:
        h.nxt[c] = sum(1 for g in objs if u.cls_of(g)[0] == c)
    return h


def random_call(rng, u, objs):
    m = rng.choice(M.MUTATORS)
    cls, meth, doms = m[0], m[1], m[2]
    kw = m[3] if len(m) > 3 else {}
    recv = [g for g in objs if u.cls_of(g)[0] == cls]
    if not recv:
        return None
    self_g = rng.choice(recv)

    def pick(d):
        k = d[0]
        if k == "ref":
            cand = [g for g in objs if u.cls_of(g)[0] in d[1]]
            g = rng.choice(cand + [NONE_ID]) if cand else NONE_ID
            return ["ref", g]
        if k == "pos":
            return ["val", rng.choice([None, None, -7, -1, 0, 1, 2, 9])]
        if k == "bool":
            return ["val", rng.random() < 0.5]
        if k == "int":
            return ["val", rng.randint(d[1], d[2])]
        if k == "atom":
            return ["val", rng.choice(["a", "b"])]
        if k == "atom_none":
            return ["val", rng.choice(["a", "b", None])]
        if k == "key":
            return ["val", rng.choice(list(d[1]))]
        if k == "seq":
            cand = [g for g in objs if u.cls_of(g)[0] in d[1]]
            n = rng.randint(0, min(3, len(cand)))
            ids = [rng.choice(cand) for _ in range(n)] if cand else []
            # a python set iterates in hash order, which the model replaces by slot order: only
            # pass sets where the order cannot show in the result (not to the reorder setters)
            return [rng.choice(["list", "set"]) if not meth.startswith("set:") else "list", ids]
        raise ValueError(d)
    return dict(cls=cls, method=meth, self=self_g, args=[pick(d) for d in doms],
                kwargs={k: pick(d) for k, d in kw.items()})


def to_sym_arg(a, u):
    k, v = a
    if k == "ref":
        if v == NONE_ID:
            return None
        return Ref(v, (u.cls_of(v)[0],))
    if k == "val":
        return v
    els = [Ref(g, (u.cls_of(g)[0],)) for g in v]
    sl = SList(len(els), els + [None] * 0)
    return ("seqc", sl, k == "set")


def canon(state_objs, live_ids):
    """rename non-live ids by first occurrence so that two runs can be compared"""
    ren = {}

    def r(x):
        if isinstance(x, bool) or not isinstance(x, int):
            return x
        if x == NONE_ID or x in live_ids:
            return x
        if x not in ren:
            ren[x] = "new%d" % len(ren)
        return ren[x]
    out = {}
    for g in sorted(state_objs):
        if g not in live_ids:
            continue
        o = state_objs[g]
        d = {}
        for k in sorted(o):
            v = o[k]
            if k == "cls" or k == "_data" or k in ("_lower_index",):
                d[k] = v
            elif isinstance(v, list):
                d[k] = sorted(map(str, map(r, v))) if k == "_references" else [r(x) for x in v]
            elif isinstance(v, dict):
                d[k] = {str(r(int(a))): r(b) for a, b in v.items()}
            else:
                d[k] = r(v)
        out[g] = d
    return out


def one_trial(rng):
    with replay.listener_config("none"):
        u, objs = random_state(rng)
    if u is None:
        return "skip", None
    call = random_call(rng, u, objs)
    if call is None:
        return "skip", None
    h = heap_from_objs(u, objs)
    ctx = Ctx(h, M.REAL)
    M.listeners_none(ctx)
    fr = Frame(None, True, {})
    cls, meth = call["cls"], call["method"]
    if meth.startswith("set:"):
        fn, owner = mro_lookup(M.REAL[cls], meth[4:])
        fn = fn.fset
    elif meth.startswith("del:"):
        fn, owner = mro_lookup(M.REAL[cls], meth[4:])
        fn = fn.fdel
    else:
        fn, owner = mro_lookup(M.REAL[cls], meth)
    args = []
    for a in call["args"]:
        s = to_sym_arg(a, u)
        if isinstance(s, tuple) and s and s[0] == "seqc":
            s = ops.make_set(ctx, fr, s[1]) if s[2] else s[1]
        args.append(s)
    kwargs = {k: to_sym_arg(a, u) for k, a in call["kwargs"].items()}
    try:
        call_function(ctx, fr, fn, [Ref(call["self"], (cls,))] + args, kwargs, owner=owner)
    except Unsupported as e:
        return "unsupported", "%s.%s: %s" % (cls, meth, e)
    if is_sym(ctx.exc) or is_sym(ctx.bound):
        return "mismatch", "%s.%s: interpreter left symbolic residue on a concrete run" % (cls, meth)
    if ctx.bound:
        return "skip", None
    # the real call
    raised = None
    with replay.listener_config("none"):
        try:
            recv = objs[call["self"]]
            rargs = [replay.resolve_arg(tuple(a), objs) for a in call["args"]]
            rkw = {k: replay.resolve_arg(tuple(a), objs) for k, a in call["kwargs"].items()}
            if meth.startswith("set:"):
                setattr(recv, meth[4:], rargs[0])
            elif meth.startswith("del:"):
                delattr(recv, meth[4:])
            else:
                getattr(recv, meth)(*rargs, **rkw)
        except Exception as e:
            raised = e
    live_ids = set(objs)
    real_state, extra = replay.abstract(objs)
    try:
        model_state = replay.heap_to_state(ctx.h, None, live_only=True)["objects"]
    except Exception as e:
        return "mismatch", "%s.%s: post-heap not concrete: %s" % (cls, meth, e)
    model_state = {int(g): o for g, o in model_state.items()}
    a = canon(real_state, live_ids)
    b = canon(model_state, live_ids)
    desc = "%s#%d.%s(%s, %s)" % (cls, call["self"], meth, call["args"], call["kwargs"])
    if bool(raised) != bool(ctx.exc):
        return "mismatch", "%s: real %s, interpreter %s" % (
            desc, "raised %r" % raised if raised else "returned", "raised" if ctx.exc else "returned")
    if a != b:
        diffs = []
        for g in a:
            for k in a[g]:
                if a[g][k] != b[g].get(k):
                    diffs.append("%s#%d.%s real %r model %r" % (a[g]["cls"], g, k, a[g][k], b[g].get(k)))
        return "mismatch", "%s (%s): %s" % (desc, "raised" if raised else "returned", diffs[:4])
    return "ok", desc


def validate(seed, trials=150, budget_s=60):
    rng = random.Random(seed)
    t0 = time.time()
    stats = {"ok": 0, "skip": 0, "unsupported": 0, "mismatch": 0}
    problems = []
    sample = []
    for _ in range(trials):
        if time.time() - t0 > budget_s:
            break
        try:
            st, info = one_trial(rng)
        except Exception:
            st, info = "mismatch", "validator crashed: " + traceback.format_exc()[-800:]
        stats[st] += 1
        if st in ("mismatch", "unsupported") and len(problems) < 8:
            problems.append(info)
        if st == "ok" and len(sample) < 3:
            sample.append(info)
    return stats, problems, sample


if __name__ == "__main__":
    import sys
    s, p, smp = validate(int(sys.argv[1]) if len(sys.argv) > 1 else 0,
                         int(sys.argv[2]) if len(sys.argv) > 2 else 300, 600)
    print(s)
    for x in p:
        print("  ", x)
    print(smp)
