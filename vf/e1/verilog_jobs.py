"""E1 lemmas on the Verilog writer/reader kernels (C04 / C06)."""
import time
import traceback

import z3
from vf.core import result, DISCHARGED, VIOLATED, INCONCLUSIVE, VACUOUS, ERROR, fn_ident
from vf.e1.sym import (Ref, SInt, ATOMS, NONE_ID, is_sym, ITE, AND, OR, NOT, EQ, NE, LT, LE, GE, GT, ADD, SUB, MIN, MAX,
                       B, IMPLIES, Unsupported, ite_chain)
from vf.e1.heap import Universe, Heap, SList
from vf.e1.vals import Local, raw_int, raw_ref
from vf.e1.interp import Ctx, Frame, call_function, live
from vf.e1 import mutators as M, spec, replay

NBITS = 3


def concatenation_job(tier, timeout_ms=300000):
    """Composer._write_concatenation(wires): the part-selects it emits, read the way the Verilog reader reads a
    range (most significant index first, whatever the order of the two bounds), denote exactly the given wires in
    the given order -- for every list of up to three wires drawn from a 3-bit bus and a scalar, with gaps (None)."""
    from spydrnet.composers.verilog.composer import Composer
    t0 = time.time()
    name = "C04/Composer._write_concatenation"
    u = Universe(dict(Netlist=0, Library=0, Definition=1, Port=0, Cable=2, Wire=4, Instance=0, InnerPin=0, OuterPin=0),
                 dict(Cable=1), 3, keys=(".NAME",), atoms=("a", "b"))
    shape = {("Definition", 0, "_cables"): [0, 1], ("Cable", 0, "_wires"): [0, 1, 2], ("Cable", 1, "_wires"): [3]}
    pre = Heap.symbolic(u).apply_shape(shape)
    pre.data["Cable"][0][0] = (True, ATOMS.intern("a"))
    pre.data["Cable"][1][0] = (True, ATOMS.intern("b"))
    heap = pre.copy()
    ctx = Ctx(heap, M.REAL)
    M.listeners_none(ctx)
    fr = Frame(None, True, {})
    events = []

    def rec_bundle(c, f, args, kwargs):
        events.append((live(c, f), raw_ref(args[1]), raw_int(args[2]), raw_int(args[3])))

    class _File:
        pass
    _File.write = lambda self, s: None
    ctx.stubs[_File.write] = lambda c, f, a, kw: None
    ctx.local_classes = (_File,)
    ctx.stubs[Composer._write_bundle_with_indicies] = rec_bundle
    selfv = Local(Composer, {"file": Local(_File, {})})
    n = z3.Int("n_wires")
    ws, isnone = [], []
    A = pre.type_constraints() + spec.inv_all(pre) + [GE(n, 0), LE(n, NBITS)]
    L0 = pre.sc[("Cable", "_lower_index")][0]
    A += [GE(L0, 0), LE(L0, 4), EQ(pre.sc[("Cable", "_lower_index")][1], 0)]
    for k in range(NBITS):
        t = z3.Int("wire_%d" % k)
        A.append(OR(EQ(t, NONE_ID), u.isin(t, "Wire")))
        ws.append(Ref(t, ("Wire",)))
    A = [B(a) for a in A if a is not True]
    arg = SList(n, ws)
    try:
        call_function(ctx, fr, Composer._write_concatenation, [selfv, arg], owner=Composer)
    except Unsupported as e:
        return [result(name, INCONCLUSIVE, "E1/symheap", detail="Unsupported: %s" % e, wall_s=time.time() - t0)]
    # ---- independent reading of the emission, the way the reader reads ranges
    cab_of = lambda wt: ite_chain(wt, u.ids("Wire"), pre.sc[("Wire", "_cable")], NONE_ID)

    def idx_of(wt):
        # absolute bit index of a wire = position in its cable + the cable's base index
        pos = ITE(EQ(wt, u.gid("Wire", 0)), 0, ITE(EQ(wt, u.gid("Wire", 1)), 1, ITE(EQ(wt, u.gid("Wire", 2)), 2, 0)))
        base = ite_chain(cab_of(wt), u.ids("Cable"), pre.sc[("Cable", "_lower_index")], 0)
        return ADD(pos, base)
    # expected sequence: the non-None inputs in order
    exp = []
    cnt = 0
    for k in range(NBITS):
        there = AND(LT(k, n), NE(ws[k].t, NONE_ID))
        exp.append((there, cnt, cab_of(ws[k].t), idx_of(ws[k].t)))
        cnt = ADD(cnt, ITE(there, 1, 0))
    total_in = cnt
    # emitted sequence: each event denotes bits max..min of its cable, descending
    prefix = 0
    out_at = []      # q -> (valid, cable, index)
    evs = []
    for (g, c, lo, hi) in events:
        mx, mn = MAX(lo, hi), MIN(lo, hi)
        cntj = ITE(g, ADD(SUB(mx, mn), 1), 0)
        evs.append((g, c, mx, prefix, cntj))
        prefix = ADD(prefix, cntj)
    total_out = prefix
    goals = []
    goals.append(EQ(total_in, total_out))
    for (there, q, c_in, i_in) in exp:
        hit = []
        for (g, c, mx, pf, cntj) in evs:
            inside = AND(g, GE(q, pf), LT(q, ADD(pf, cntj)))
            hit.append(AND(inside, EQ(c, c_in), EQ(SUB(mx, SUB(q, pf)), i_in)))
        goals.append(IMPLIES(there, OR(*hit)))
    funcs = sorted(fn_ident(f) for f in ctx.funcs_seen)
    bounds = dict(u.describe(), max_wires=NBITS, bus="3 bits, base index 0..4", scalar="1 bit")
    ok = [B(NOT(ctx.bound)), B(NOT(ctx.exc))]
    tw = {"pre_sat": M.check(A, True, 60000)[0], "returns": M.check(A, AND(NOT(ctx.exc), NOT(ctx.bound)), 120000)[0]}
    if tw["pre_sat"] != "sat" or tw["returns"] != "sat":
        return [result(name, VACUOUS, "E1/symheap", twins=tw, bounds=bounds, detail="reachability twin failed: %s %s" % (
            tw, sorted(set(ctx.bound_why))[:3]))]
    out = []
    oname = name + "/emitted-part-selects-denote-the-given-wires-in-order"
    st, dt, mdl = M.check(A + ok, NOT(AND(*goals)), timeout_ms)
    if st == "unsat":
        out.append(result(oname, DISCHARGED, "E1/symheap", queries=1, solver_s=dt, twins=tw, bounds=bounds,
                          functions=funcs, detail="unsat", wall_s=time.time() - t0, paths=1))
    elif st != "sat":
        out.append(result(oname, INCONCLUSIVE, "E1/symheap", detail="solver: %s" % st, bounds=bounds))
    else:
        nv = replay.mval(mdl, n)
        seq = []
        for k in range(nv):
            t = replay.mval(mdl, ws[k].t)
            seq.append(None if t == NONE_ID else t - u.base["Wire"])
        rp = {"engine": "E1", "property": "C04", "obligation": oname, "kind": "concatenation", "wires": seq,
              "base": replay.mval(mdl, L0)}
        try:
            viol, txt = replay_concatenation(rp)
        except Exception:
            viol, txt = False, "replay crashed: " + traceback.format_exc()[-400:]
        out.append(result(oname, VIOLATED if viol else ERROR, "E1/symheap", queries=1, solver_s=dt, twins=tw,
                          bounds=bounds, functions=funcs, replay=rp if viol else None,
                          detail=txt if viol else "counterexample did not reproduce: " + txt, wall_s=time.time() - t0))
    st, dt, mdl = M.check(A + [B(NOT(ctx.bound))], ctx.exc, timeout_ms)
    out.append(result(name + "/never-raises", DISCHARGED if st == "unsat" else INCONCLUSIVE, "E1/symheap", queries=1,
                      solver_s=dt, bounds=bounds, functions=funcs, detail=st))
    return out


def replay_concatenation(rp):
    """real composer + real reader: an instance port of width len(wires) connected to that concatenation"""
    import io
    import os
    import shutil
    import tempfile
    import spydrnet as sdn
    wires = [w for w in rp["wires"] if w is not None]
    if not wires:
        return False, "empty concatenation"
    n = sdn.Netlist(name="n")
    lib = n.create_library("work")
    leaf = lib.create_definition("leaf")
    p = leaf.create_port("d", pins=len(wires), direction=sdn.IN)
    top = lib.create_definition("top")
    a = top.create_cable("a", wires=3, lower_index=rp["base"])
    b = top.create_cable("b", wires=1)
    allw = list(a.wires) + list(b.wires)
    inst = top.create_child("u", reference=leaf)
    for k, w in enumerate(wires):
        # the composer lists a port's bits most-significant first: element k of the concatenation is pin len-1-k
        allw[w].connect_pin(inst.pins[p.pins[len(wires) - 1 - k]])
    ti = sdn.Instance(name="top_i")
    ti.reference = top
    n.top_instance = ti
    d = tempfile.mkdtemp(prefix="vf_c04_")
    try:
        path = os.path.join(d, "x.v")
        sdn.compose(n, path)
        m = sdn.parse(path)
        u2 = next(m.get_instances("u"))
        got = []
        for pin in next(u2.reference.get_ports("d")).pins:
            w = u2.pins[pin].wire
            got.append(None if w is None else (w.cable.name, w.cable.wires.index(w) + w.cable.lower_index))
        want = []
        for pin in p.pins:
            w = inst.pins[pin].wire
            want.append(None if w is None else (w.cable.name, w.cable.wires.index(w) + w.cable.lower_index))
        return got != want, "port d connected to %s is re-read as %s (text: %s)" % (
            want, got, [l.strip() for l in open(path).read().splitlines() if ".d(" in l][:1])
    finally:
        shutil.rmtree(d, ignore_errors=True)


def reader_kernels_job(tier, timeout_ms=300000):
    """C06 lemmas on the Verilog reader: (1) get_wires_from_cable returns the selected bits most significant
    first; (2) create_or_update_cable grows an existing cable to cover a new range while every existing wire
    keeps its absolute index and its pins; (3) a constant (1'b0) used in the port maps of two modules is joined
    to the constant net OF THE MODULE BEING CONNECTED, whatever was parsed before."""
    from spydrnet.parsers.verilog.parser import VerilogParser
    import spydrnet as sdn
    from vf.e1.interp import mro_lookup
    from vf.e1.vals import SOpt
    out = []
    t0 = time.time()
    # ---------------------------------------------------------------- (1)
    name = "C06/VerilogParser.get_wires_from_cable"
    for width in (1, 2, 3):
        u = Universe(dict(Netlist=0, Library=0, Definition=1, Port=0, Cable=1, Wire=width, Instance=0, InnerPin=0,
                          OuterPin=0), {}, 3)
        pre = Heap.symbolic(u).apply_shape({("Definition", 0, "_cables"): [0], ("Cable", 0, "_wires"): list(range(width))})
        ctx = Ctx(pre.copy(), M.REAL)
        M.listeners_none(ctx)
        fr = Frame(None, True, {})
        L = pre.sc[("Cable", "_lower_index")][0]
        l, r = z3.Int("left"), z3.Int("right")
        ln, rn = z3.Bool("left_is_none"), z3.Bool("right_is_none")
        A = pre.type_constraints() + spec.inv_all(pre)
        inr = lambda x: AND(GE(x, L), LT(x, ADD(L, width)))
        A += [OR(ln, inr(l)), OR(rn, inr(r)), GE(L, 0)]
        A = [B(a) for a in A if a is not True]
        selfv = Local(VerilogParser, {})
        oname = "%s{width=%d}" % (name, width)
        try:
            res = call_function(ctx, fr, VerilogParser.get_wires_from_cable,
                                [selfv, Ref(u.gid("Cable", 0), ("Cable",)), SOpt(ln, SInt(l)), SOpt(rn, SInt(r))],
                                owner=VerilogParser)
        except Unsupported as e:
            out.append(result(oname, INCONCLUSIVE, "E1/symheap", detail="Unsupported: %s" % e))
            continue
        from vf.e1.vals import compact
        res = compact(res)
        hi = ITE(AND(NOT(ln), NOT(rn)), MAX(l, r), ITE(NOT(ln), l, ITE(NOT(rn), r, ADD(L, width - 1))))
        lo = ITE(AND(NOT(ln), NOT(rn)), MIN(l, r), ITE(NOT(ln), l, ITE(NOT(rn), r, L)))
        cs = [EQ(res.len, ADD(SUB(hi, lo), 1))]
        for k in range(res.cap):
            want = ADD(u.base["Wire"], SUB(SUB(hi, k), L))      # wire slot = absolute index - base index
            cs.append(IMPLIES(LT(k, res.len), EQ(raw_ref(res.el[k]), want)))
        st, dt, mdl = M.check(A + [B(NOT(ctx.exc)), B(NOT(ctx.bound))], NOT(AND(*cs)), timeout_ms)
        tw = M.check(A, AND(NOT(ctx.exc), NOT(ctx.bound)), 60000)[0]
        rp, detail = None, st
        if st == "sat":
            rp = {"engine": "E1", "property": "C06", "kind": "get_wires", "width": width, "base": replay.mval(mdl, L),
                  "left": None if replay.mval(mdl, ln) else replay.mval(mdl, l),
                  "right": None if replay.mval(mdl, rn) else replay.mval(mdl, r)}
            viol, detail = replay_get_wires(rp)
            status = VIOLATED if viol else ERROR
            if not viol:
                detail = "counterexample did not reproduce: " + detail
        else:
            status = DISCHARGED if (st == "unsat" and tw == "sat") else (VACUOUS if tw != "sat" else INCONCLUSIVE)
        out.append(result(oname + "/selected-bits-most-significant-first", status, "E1/symheap", queries=2, solver_s=dt,
                          bounds=dict(u.describe(), width=width), functions=sorted(fn_ident(f) for f in ctx.funcs_seen),
                          twins={"returns": tw}, detail=detail, paths=1, replay=rp if status == VIOLATED else None))
    # ---------------------------------------------------------------- (3)
    name = "C06/VerilogParser.parse_variable_instantiation/constant-joins-the-current-module"
    u = Universe(dict(Netlist=0, Library=0, Definition=2, Port=0, Cable=2, Wire=2, Instance=0, InnerPin=0, OuterPin=0),
                 dict(Cable=2, Wire=2), 3, keys=(".NAME",), atoms=("\\<const0>", "x"))
    pre = Heap.symbolic(u).apply_shape({("Definition", 0, "_cables"): [0], ("Cable", 0, "_wires"): [0],
                                        ("Definition", 1, "_cables"): [1], ("Cable", 1, "_wires"): [1]})
    ctx = Ctx(pre.copy(), M.REAL)
    M.listeners_none(ctx)
    ctx.globals_over[("spydrnet.global_state.global_service", "_registered_lookups")] = {}
    fr = Frame(None, True, {})
    A = pre.type_constraints() + spec.inv_all(pre)
    A += [pre.data["Cable"][0][0][0], pre.data["Cable"][1][0][0]]
    A = [B(a) for a in A if a is not True]
    selfv = Local(VerilogParser, {})
    try:
        ctx.stubs[VerilogParser.next_token] = lambda c, f, a, k: "1'b0"
        ctx.stubs[VerilogParser.peek_token] = lambda c, f, a, k: ")"
        call_function(ctx, fr, VerilogParser.__init__, [selfv], owner=VerilogParser)
        rets = []
        for d in (0, 1):
            selfv.f["current_definition"] = Ref(u.gid("Definition", d), ("Definition",))
            # what parse_module does when it starts a module (so that per-module state is reset as in a real parse)
            r = call_function(ctx, fr, VerilogParser.parse_variable_instantiation, [selfv], owner=VerilogParser)
            rets.append(r[0] if isinstance(r, tuple) else r)
        post = ctx.h
        cs = []
        for d, cab in enumerate(rets):
            t = raw_ref(cab)
            cd = ite_chain(t, u.ids("Cable"), post.sc[("Cable", "_definition")], NONE_ID)
            cs.append(EQ(cd, u.gid("Definition", d)))
        st, dt, mdl = M.check(A + [B(NOT(ctx.exc)), B(NOT(ctx.bound))], NOT(AND(*cs)), timeout_ms)
        tw = M.check(A, AND(NOT(ctx.exc), NOT(ctx.bound)), 60000)[0]
        funcs = sorted(fn_ident(f) for f in ctx.funcs_seen)
        if st == "sat":
            rp = {"engine": "E1", "property": "C06", "obligation": name, "kind": "const_two_modules"}
            viol, txt = replay_const_two_modules(rp)
            out.append(result(name, VIOLATED if viol else ERROR, "E1/symheap", queries=2, solver_s=dt, functions=funcs,
                              bounds=u.describe(), replay=rp if viol else None,
                              detail=txt if viol else "counterexample did not reproduce: " + txt))
        else:
            status = DISCHARGED if (st == "unsat" and tw == "sat") else (VACUOUS if tw != "sat" else INCONCLUSIVE)
            out.append(result(name, status, "E1/symheap", queries=2, solver_s=dt, bounds=u.describe(), functions=funcs,
                              twins={"returns": tw}, detail=st, paths=1, wall_s=time.time() - t0))
    except Unsupported as e:
        out.append(result(name, INCONCLUSIVE, "E1/symheap", detail="Unsupported: %s" % e))
    return out


def replay_get_wires(rp):
    import spydrnet as sdn
    from spydrnet.parsers.verilog.parser import VerilogParser
    c = sdn.Cable(name="x", lower_index=rp["base"])
    c.create_wires(rp["width"])
    got = VerilogParser.__new__(VerilogParser).get_wires_from_cable(c, rp["left"], rp["right"])
    idx = [list(c.wires).index(w) + rp["base"] for w in got]
    l, r = rp["left"], rp["right"]
    if l is not None and r is not None:
        want = list(range(max(l, r), min(l, r) - 1, -1))
    elif l is not None or r is not None:
        want = [l if l is not None else r]
    else:
        want = list(range(rp["base"] + rp["width"] - 1, rp["base"] - 1, -1))
    return idx != want, "x[%s:%s] of x[%d..%d] selects bits %s, expected %s" % (
        l, r, rp["base"], rp["base"] + rp["width"] - 1, idx, want)


def replay_const_two_modules(rp):
    """a real two-module file whose FIRST module ties a positional port to 1'b0 and whose second module uses 1'b0"""
    import os
    import shutil
    import tempfile
    import spydrnet as sdn
    text = ("module leaf(a, y);\n input a;\n output y;\nendmodule\n"
            "module mid(n);\n output n;\n leaf u0(1'b0, n);\nendmodule\n"
            "module top(q);\n output q;\n wire t;\n leaf u1(.a(1'b0), .y(t));\n mid m(.n(q));\nendmodule\n")
    d = tempfile.mkdtemp(prefix="vf_c06_")
    try:
        p = os.path.join(d, "x.v")
        open(p, "w").write(text)
        n = sdn.parse(p)
        probs = []
        for inst in n.get_instances():
            for op in inst.pins:
                w = op.wire
                if w is not None and w.cable.definition is not inst.parent:
                    probs.append("%s.%s pin sits on net %s owned by module %s" % (
                        inst.parent.name, inst.name, w.cable.name, w.cable.definition.name))
        return bool(probs), "constants in two modules: %s" % probs[:3]
    finally:
        shutil.rmtree(d, ignore_errors=True)


def concat_read_job(tier, timeout_ms=300000):
    """VerilogParser.parse_cable_concatenation for `{ P1 , P2 }`: the wires returned are the bits of P1, most
    significant first, followed by the bits of P2, most significant first -- each piece an identifier, bit-select or
    part-select (symbolic bounds) of either of two 2-bit cables with symbolic base indices."""
    from spydrnet.parsers.verilog.parser import VerilogParser
    from vf.e1.vals import SOpt, compact
    t0 = time.time()
    name = "C06/VerilogParser.parse_cable_concatenation"
    W = 2
    u = Universe(dict(Netlist=0, Library=0, Definition=1, Port=0, Cable=2, Wire=2 * W, Instance=0, InnerPin=0, OuterPin=0),
                 {}, 2 * W)
    pre = Heap.symbolic(u).apply_shape({("Definition", 0, "_cables"): [0, 1], ("Cable", 0, "_wires"): list(range(W)),
                                        ("Cable", 1, "_wires"): list(range(W, 2 * W))})
    ctx = Ctx(pre.copy(), M.REAL)
    M.listeners_none(ctx)
    fr = Frame(None, True, {})
    A = pre.type_constraints() + spec.inv_all(pre)
    pieces = []
    for k in range(2):
        c = z3.Int("piece%d_cable" % k)
        l, r = z3.Int("piece%d_left" % k), z3.Int("piece%d_right" % k)
        ln, rn = z3.Bool("piece%d_left_is_none" % k), z3.Bool("piece%d_right_is_none" % k)
        L = ITE(EQ(c, 0), pre.sc[("Cable", "_lower_index")][0], pre.sc[("Cable", "_lower_index")][1])
        inr = lambda x, L=L: AND(GE(x, L), LT(x, ADD(L, W)))
        # the bounds the reader hands on: both, the left one only (bit-select), or none
        A += [OR(EQ(c, 0), EQ(c, 1)), OR(ln, inr(l)), OR(rn, inr(r)), GE(L, 0), IMPLIES(ln, rn)]
        pieces.append((c, l, r, ln, rn, L))
    A = [B(a) for a in A if a is not True]
    toks = iter(["{", "x", ",", "}"])         # next: {   peek: x   next: ,   next: }
    # (after a possibly-raising step the interpreter explores one more, infeasible, iteration: it sees "}")
    ctx.stubs[VerilogParser.next_token] = lambda c_, f, a, k: next(toks, "}")
    ctx.stubs[VerilogParser.peek_token] = lambda c_, f, a, k: next(toks, "}")
    calls = []

    def piece(c_, f, a, k):
        c, l, r, ln, rn, L = pieces[min(len(calls), 1)]
        calls.append(1)
        return (Ref(ADD(u.base["Cable"], c), ("Cable",)), SOpt(ln, SInt(l)), SOpt(rn, SInt(r)))
    ctx.stubs[VerilogParser.parse_variable_instantiation] = piece
    selfv = Local(VerilogParser, {})
    try:
        res = compact(call_function(ctx, fr, VerilogParser.parse_cable_concatenation, [selfv], owner=VerilogParser))
    except Unsupported as e:
        return [result(name, INCONCLUSIVE, "E1/symheap", detail="Unsupported: %s" % e, wall_s=time.time() - t0)]
    # expected: piece 1 bits hi..lo, then piece 2 bits hi..lo (wire slot = cable*W + index - base)
    def span(c, l, r, ln, rn, L):
        hi = ITE(AND(NOT(ln), NOT(rn)), MAX(l, r), ITE(NOT(ln), l, ADD(L, W - 1)))
        lo = ITE(AND(NOT(ln), NOT(rn)), MIN(l, r), ITE(NOT(ln), l, L))
        return hi, lo
    (h1, l1), (h2, l2) = span(*pieces[0]), span(*pieces[1])
    n1, n2 = ADD(SUB(h1, l1), 1), ADD(SUB(h2, l2), 1)
    slot = lambda p, idx: ADD(u.base["Wire"], ADD(z3.IntVal(W) * p[0], SUB(idx, p[5])))
    cs = [EQ(res.len, ADD(n1, n2))]
    for k in range(res.cap):
        want = ITE(LT(k, n1), slot(pieces[0], SUB(h1, k)), slot(pieces[1], SUB(h2, SUB(k, n1))))
        cs.append(IMPLIES(LT(k, res.len), EQ(raw_ref(res.el[k]), want)))
    tw = M.check(A, AND(NOT(ctx.exc), NOT(ctx.bound)), 60000)[0]
    st, dt, mdl = M.check(A + [B(NOT(ctx.exc)), B(NOT(ctx.bound))], NOT(AND(*cs)), timeout_ms)
    rp, detail = None, st
    if st == "sat":
        mv = lambda x: replay.mval(mdl, x)
        rp = {"engine": "E1", "property": "C06", "kind": "concat_read", "width": W,
              "bases": [mv(pre.sc[("Cable", "_lower_index")][i]) for i in range(2)],
              "pieces": [[mv(c), None if mv(ln) else mv(l), None if mv(rn) else mv(r)] for c, l, r, ln, rn, L in pieces]}
        try:
            viol, detail = replay_concat_read(rp)
        except Exception:
            viol, detail = False, "replay crashed: " + traceback.format_exc()[-400:]
        status = VIOLATED if viol else ERROR
        if not viol:
            detail = "counterexample did not reproduce: " + detail
    else:
        status = DISCHARGED if (st == "unsat" and tw == "sat") else (VACUOUS if tw != "sat" else INCONCLUSIVE)
    return [result(name + "/pieces-in-order-each-most-significant-first", status, "E1/symheap", queries=2, solver_s=dt,
                   bounds=dict(u.describe(), pieces=2, cable_width=W,
                               stubs=["next_token/peek_token: the tokens { x , }",
                                      "parse_variable_instantiation: returns the symbolic (cable, left, right) of each piece"]),
                   functions=sorted(fn_ident(f) for f in ctx.funcs_seen), twins={"returns": tw}, detail=detail, paths=1,
                   replay=rp if status == VIOLATED else None, wall_s=time.time() - t0)]


def replay_concat_read(rp):
    """a real file: leaf with a wide input, top connects it to the concatenation; read with sdn.parse"""
    import os
    import shutil
    import tempfile
    import spydrnet as sdn
    W = rp["width"]
    names = ["a", "b"]

    def text_of(p):
        c, l, r = p
        return names[c] + ("" if l is None else "[%d]" % l if r is None else "[%d:%d]" % (l, r))

    def bits_of(p):
        c, l, r = p
        base = rp["bases"][c]
        if l is None:
            return [(names[c], i) for i in range(base + W - 1, base - 1, -1)]
        if r is None:
            return [(names[c], l)]
        return [(names[c], i) for i in range(max(l, r), min(l, r) - 1, -1)]
    want = bits_of(rp["pieces"][0]) + bits_of(rp["pieces"][1])
    n = len(want)
    decl = "".join(" wire [%d:%d] %s;\n" % (rp["bases"][i] + W - 1, rp["bases"][i], names[i]) for i in range(2))
    text = ("module leaf(i);\n input [%d:0] i;\nendmodule\nmodule top();\n%s leaf u0(.i({%s, %s}));\nendmodule\n" % (
        n - 1, decl, text_of(rp["pieces"][0]), text_of(rp["pieces"][1])))
    d = tempfile.mkdtemp(prefix="vf_c06_")
    try:
        p = os.path.join(d, "x.v")
        open(p, "w").write(text)
        nl = sdn.parse(p)
        u0 = next(nl.get_instances("u0"))
        port = next(u0.reference.get_ports("i"))
        got = []
        for k in range(n - 1, -1, -1):       # most significant pin first
            pin = u0.pins[port.pins[k - port.lower_index]]
            w = pin.wire
            got.append(None if w is None else (w.cable.name, w.cable.wires.index(w) + w.cable.lower_index))
        return got != want, "leaf u0(.i({%s, %s})) with a[%d..], b[%d..]: port bits msb-first joined to %s, expected %s" % (
            text_of(rp["pieces"][0]), text_of(rp["pieces"][1]), rp["bases"][0], rp["bases"][1], got, want)
    finally:
        shutil.rmtree(d, ignore_errors=True)


def port_map_job(tier, kind="positional", timeout_ms=300000):
    """VerilogParser.connect_implicitly_mapped_ports (positional) / parse_port_map_single (named): an expression of
    n <= 2 bits (identifier, bit-select or part-select of a two-bit cable with symbolic base index; tokens and
    parse_variable_instantiation stubbed) connected to a two-bit port: bit k of the expression, counted from its
    least significant end, is joined to port bit k; port bits above the expression stay open."""
    from spydrnet.parsers.verilog.parser import VerilogParser
    from vf.e1.vals import SOpt
    t0 = time.time()
    name = "C06/VerilogParser.%s" % ("connect_implicitly_mapped_ports" if kind == "positional" else "parse_port_map_single")
    W = 2
    u = Universe(dict(Netlist=0, Library=0, Definition=2, Port=1, Cable=1, Wire=W, Instance=1, InnerPin=2, OuterPin=2),
                 {}, 2, keys=(".NAME",), atoms=("P", "c", "u"))
    shape = {("Definition", 0, "_cables"): [0], ("Cable", 0, "_wires"): [0, 1], ("Definition", 0, "_children"): [0],
             ("Definition", 1, "_ports"): [0], ("Port", 0, "_pins"): [0, 1]}
    pre = Heap.symbolic(u).apply_shape(shape)
    pre.data["Port"][0][0] = (True, ATOMS.intern("P"))
    pre.sc[("Port", "_lower_index")][0] = 0
    heap = pre.copy()
    ctx = Ctx(heap, M.REAL)
    M.listeners_none(ctx)
    ctx.globals_over[("spydrnet.global_state.global_service", "_registered_lookups")] = {}
    fr = Frame(None, True, {})
    A = pre.type_constraints() + spec.inv_all(pre)
    D1 = u.gid("Definition", 1)
    A.append(EQ(pre.sc[("Instance", "_reference")][0], D1))
    ops_ = [pre.pinmap[0][k] for k in range(2)]
    for o in range(2):
        A.append(EQ(pre.sc[("OuterPin", "_wire")][o], NONE_ID))          # the instance is not connected yet
    L = pre.sc[("Cable", "_lower_index")][0]
    l, r = z3.Int("left"), z3.Int("right")
    ln, rn = z3.Bool("left_is_none"), z3.Bool("right_is_none")
    inr = lambda x: AND(GE(x, L), LT(x, ADD(L, W)))
    A += [OR(ln, inr(l)), OR(rn, inr(r)), GE(L, 0), IMPLIES(ln, rn)]
    A = [B(a) for a in A if a is not True]
    inst = Ref(u.gid("Instance", 0), ("Instance",))
    cab = Ref(u.gid("Cable", 0), ("Cable",))
    toks = iter(["(", "x", "x", ")"] if kind == "positional" else [".", "P", "(", "x", ")"])
    ctx.stubs[VerilogParser.next_token] = lambda c_, f, a, k: next(toks, ")")
    ctx.stubs[VerilogParser.peek_token] = lambda c_, f, a, k: next(toks, ")")
    ctx.stubs[VerilogParser.parse_variable_instantiation] = lambda c_, f, a, k: (cab, SOpt(ln, SInt(l)), SOpt(rn, SInt(r)))
    selfv = Local(VerilogParser, {"current_instance": inst, "current_definition": Ref(u.gid("Definition", 0), ("Definition",))})
    try:
        if kind == "positional":
            from spydrnet.parsers.verilog.tokenizer import VerilogTokenizerSimple
            ctx.stubs[VerilogTokenizerSimple.__init__] = lambda c_, f, a, k: None
            selfv.f["implicitly_mapped_ports"] = {inst: ["(", "x", ")"]}
            call_function(ctx, fr, VerilogParser.connect_implicitly_mapped_ports, [selfv], owner=VerilogParser)
        else:
            def pins_of_port(c_, f, a, k):
                return SList(2, [Ref(ops_[0], ("OuterPin",)), Ref(ops_[1], ("OuterPin",))])
            ctx.stubs[VerilogParser.create_or_update_port_on_instance] = pins_of_port
            call_function(ctx, fr, VerilogParser.parse_port_map_single, [selfv], owner=VerilogParser)
    except Unsupported as e:
        return [result(name, INCONCLUSIVE, "E1/symheap", detail="Unsupported: %s" % e, wall_s=time.time() - t0)]
    post = heap
    hi = ITE(AND(NOT(ln), NOT(rn)), MAX(l, r), ITE(NOT(ln), l, ADD(L, W - 1)))
    lo = ITE(AND(NOT(ln), NOT(rn)), MIN(l, r), ITE(NOT(ln), l, L))
    n = ADD(SUB(hi, lo), 1)
    cs = []
    for k in range(2):
        now = ite_chain(ops_[k], u.ids("OuterPin"), post.sc[("OuterPin", "_wire")], NONE_ID)
        want = ITE(LT(k, n), ADD(u.base["Wire"], SUB(ADD(lo, k), L)), NONE_ID)
        cs.append(EQ(now, want))
    funcs = sorted(fn_ident(f) for f in ctx.funcs_seen)
    bounds = dict(u.describe(), port_width=2, cable_width=W, kind=kind,
                  stubs=["next_token/peek_token: the tokens of one port connection", "parse_variable_instantiation: symbolic (cable, left, right)"]
                  + ([] if kind == "positional" else ["create_or_update_port_on_instance: the instance's two pins of the port"]))
    ok = [B(NOT(ctx.exc)), B(NOT(ctx.bound))]
    tw = {"returns": M.check(A, AND(NOT(ctx.exc), NOT(ctx.bound)), 60000)[0],
          "narrow-expression": M.check(A + ok, EQ(n, 1), 60000)[0]}
    if any(v != "sat" for v in tw.values()):
        return [result(name, VACUOUS, "E1/symheap", twins=tw, bounds=bounds, detail="reachability twin failed: %s %s" % (
            tw, sorted(set(ctx.bound_why))[:3]))]
    st, dt, mdl = M.check(A + ok, NOT(AND(*cs)), timeout_ms)
    oname = name + "/expression-bit-k-joins-port-bit-k-from-the-low-end"
    if st == "unsat":
        return [result(oname, DISCHARGED, "E1/symheap", queries=3, solver_s=dt, twins=tw, bounds=bounds, functions=funcs,
                       detail="unsat", wall_s=time.time() - t0, paths=1)]
    if st != "sat":
        return [result(oname, INCONCLUSIVE, "E1/symheap", detail="solver: %s" % st, bounds=bounds)]
    mv = lambda x: replay.mval(mdl, x)
    rp = {"engine": "E1", "property": "C06", "obligation": oname, "kind": "port_map", "map": kind, "base": mv(L),
          "left": None if mv(ln) else mv(l), "right": None if mv(rn) else mv(r)}
    try:
        viol, txt = replay_port_map(rp)
    except Exception:
        viol, txt = False, "replay crashed: " + traceback.format_exc()[-400:]
    return [result(oname, VIOLATED if viol else ERROR, "E1/symheap", queries=3, solver_s=dt, twins=tw, bounds=bounds,
                   functions=funcs, replay=rp if viol else None,
                   detail=txt if viol else "counterexample did not reproduce: " + txt, wall_s=time.time() - t0)]


def replay_port_map(rp):
    """a real file: two-bit port, two-bit cable with that base, the expression in a positional / named port map"""
    import os
    import shutil
    import tempfile
    import spydrnet as sdn
    b, l, r = rp["base"], rp["left"], rp["right"]
    expr = "c" + ("" if l is None else "[%d]" % l if r is None else "[%d:%d]" % (l, r))
    bits = list(range(b, b + 2)) if l is None else [l] if r is None else list(range(min(l, r), max(l, r) + 1))
    conn = "(%s)" % expr if rp["map"] == "positional" else "(.P(%s))" % expr
    text = "module SUB(P);\n input [1:0] P;\nendmodule\nmodule TOP();\n wire [%d:%d] c;\n SUB u %s;\nendmodule\n" % (b + 1, b, conn)
    d = tempfile.mkdtemp(prefix="vf_c06_")
    try:
        p = os.path.join(d, "x.v")
        open(p, "w").write(text)
        nl = sdn.parse(p)
        inst = next(nl.get_instances("u"))
        port = next(inst.reference.get_ports("P"))
        got = []
        for k in range(2):
            w = inst.pins[port.pins[k]].wire
            got.append(None if w is None else w.cable.wires.index(w) + w.cable.lower_index)
        want = [bits[k] if k < len(bits) else None for k in range(2)]
        return got != want, "SUB u %s with c[%d:%d]: port bits P[0], P[1] joined to c%s, expected c%s" % (conn, b + 1, b, got, want)
    finally:
        shutil.rmtree(d, ignore_errors=True)
