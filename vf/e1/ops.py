"""Operations of engine E1: calls, builtins, comparisons, sequences, heap containers."""
import ast
import builtins
import collections
import copy as _copy
import sys
import types

import z3
from vf.e1.sym import (Ref, SInt, SBool, SAtom, ATOMS, NONE_ID, is_sym, ITE, AND, OR, NOT, EQ, NE,
                       LT, LE, GE, GT, ADD, SUB, MUL, MIN, MAX, B, I, Unsupported, mkbool, mkint,
                       atom_of, atom_concrete, lift, unwrap_atom, ite_chain)
from vf.e1.heap import SList, CLASSES, FCE
from vf.e1.vals import SText
from vf.e1.vals import (Local, BoundMethod, RefMethod, SymMethod, SuperProxy, HeapSet, PinMap,
                        HeapData, SOpt, merge, truth, raw_bool, raw_int, raw_ref, present, seq_len,
                        compact, from_pylist, PyIter, to_atom)
from vf.e1 import interp as I_
from vf.e1.interp import live, raise_if, bound_if, call_function, Closure, call_closure

INPLACE = object()


def NOOP(*a, **k):
    return None


class SDict:
    """symbolic dict over a finite key universe.  keys: python constants / atoms / IR refs.
    entries: key-token -> [present(raw bool), value]; tokens are ('a', atom idx) or ('r', gid)"""

    def __init__(self, entries=None, order=None):
        self.e = dict(entries or {})
        self.order = list(order or [])      # insertion order of tokens (approximation)

    def copy(self):
        return SDict({k: list(v) for k, v in self.e.items()}, self.order)


# ------------------------------------------------------------------------------------------------
def is_symbolic_value(v):
    if isinstance(v, (Ref, SInt, SBool, SAtom, SList, Local, HeapSet, PinMap, HeapData, SOpt, SDict,
                      BoundMethod, RefMethod, SymMethod, Closure, PyIter, SuperProxy)):
        return True
    if isinstance(v, (tuple, list)):
        return any(is_symbolic_value(x) for x in v)
    if isinstance(v, dict):
        return any(is_symbolic_value(x) for x in v.values())
    return False


def type_of(ctx, fr, v):
    if isinstance(v, Ref):
        cs = sorted(v.cands)
        if len(cs) == 1:
            return ctx.real[cs[0]]
        t = None
        dom = []
        for c in cs:
            i = ATOMS.intern(ctx.real[c])
            dom.append(i)
            t = i if t is None else ITE(ctx.u.isin(v.t, c), i, t)
        return SAtom(t, dom)
    if isinstance(v, Local):
        return v.cls
    if isinstance(v, SAtom):
        r, _ = lift(lambda x: type(x), v)
        return r
    if isinstance(v, SInt):
        return int
    if isinstance(v, SBool):
        return bool
    if isinstance(v, SList):
        return set if v.is_set else list
    return type(v)


# ------------------------------------------------------------------------------------------------
# equality
def obj_eq(ctx, fr, a, b):
    """python `a == b` -> raw bool"""
    if isinstance(a, SOpt) or isinstance(b, SOpt):
        ao = a if isinstance(a, SOpt) else SOpt(a is None, a)
        bo = b if isinstance(b, SOpt) else SOpt(b is None, b)
        both_none = AND(ao.isnone, bo.isnone)
        neither = AND(NOT(ao.isnone), NOT(bo.isnone))
        inner = obj_eq(ctx, fr, ao.val, bo.val) if (ao.val is not None and bo.val is not None) else False
        return OR(both_none, AND(neither, inner))
    if isinstance(a, Ref) or isinstance(b, Ref):
        if not isinstance(a, (Ref, type(None))) or not isinstance(b, (Ref, type(None))):
            return False
        return ref_eq(ctx, fr, a, b)
    if a is None or b is None:
        if isinstance(a, SAtom) or isinstance(b, SAtom):
            return EQ(to_atom(a).t, to_atom(b).t)
        return a is b
    if isinstance(a, (bool, SBool)) and isinstance(b, (bool, SBool)):
        return EQ(raw_bool(a), raw_bool(b))
    if isinstance(a, (int, SInt)) and isinstance(b, (int, SInt)):
        return EQ(raw_int(a), raw_int(b))
    if isinstance(a, SAtom) or isinstance(b, SAtom):
        try:
            aa, bb = to_atom(a), to_atom(b)
        except Exception:
            return False
        if set(aa.dom).isdisjoint(bb.dom):
            return False
        return EQ(aa.t, bb.t)
    if isinstance(a, tuple) and isinstance(b, tuple):
        if len(a) != len(b):
            return False
        return AND(*[obj_eq(ctx, fr, x, y) for x, y in zip(a, b)])
    if isinstance(a, SList) and isinstance(b, SList):
        if a.is_set or b.is_set:
            return AND(subset(ctx, fr, a, b), subset(ctx, fr, b, a))
        a, b = compact(a), compact(b)
        r = EQ(a.len, b.len)
        for k in range(min(a.cap, b.cap)):
            r = AND(r, OR(NOT(LT(k, a.len)), obj_eq(ctx, fr, a.el[k], b.el[k])))
        if a.cap != b.cap:
            r = AND(r, LE(a.len, min(a.cap, b.cap)))
        return r
    if isinstance(a, Local) or isinstance(b, Local):
        x = a if isinstance(a, Local) else b
        y = b if x is a else a
        f, owner = I_.mro_lookup(x.cls, "__eq__")
        if isinstance(f, types.FunctionType) and I_.interpretable(ctx, f):
            return I_.truth_of(ctx, fr, call_function(ctx, fr, f, [x, y], owner=owner))
        return x is y
    if is_symbolic_value(a) or is_symbolic_value(b):
        return a is b
    try:
        return bool(a == b)
    except Exception:
        return False


def ref_eq(ctx, fr, a, b):
    """== on IR references: classes with their own __eq__ (OuterPin) are interpreted"""
    ta, tb = raw_ref(a), raw_ref(b)
    ident = EQ(ta, tb)
    if a is None or b is None:
        return ident
    custom = []
    for c in sorted(a.cands):
        f, owner = I_.mro_lookup(ctx.real[c], "__eq__")
        if isinstance(f, types.FunctionType):
            custom.append((c, f, owner))
    if not custom:
        return ident
    res = ident
    g0 = fr.g
    for c, f, owner in custom:
        cond = ctx.u.isin(ta, c)
        if cond is False:
            continue
        fr.g = AND(g0, cond)
        if live(ctx, fr) is False:
            continue
        v = I_.truth_of(ctx, fr, call_function(ctx, fr, f, [Ref(ta, (c,)), b], owner=owner))
        res = ITE(cond, v, res)
    fr.g = g0
    return res


def contains(ctx, fr, container, x):
    """`x in container` -> raw bool"""
    from vf.e1 import nsmodel as NS
    if isinstance(container, NS.NSManagerDict):
        return NS.mgr_has(ctx, fr, x)
    if isinstance(container, NS.NSTypeDict):
        return NS.typ_has(ctx, container, x)
    if isinstance(container, NS.NSNameDict):
        return NS.name_has(ctx, container, x)
    from vf.e1.vals import SGen as _SGen
    if isinstance(container, _SGen):
        container = as_slist(ctx, fr, container)
    if isinstance(container, SList):
        return OR(*[AND(present(container, k), obj_eq(ctx, fr, container.el[k], x))
                    for k in range(container.cap)])
    if isinstance(container, Local):
        f, owner = I_.mro_lookup(container.cls, "__contains__")
        if f is None:
            raise Unsupported("no __contains__ on %s" % container.cls)
        return I_.truth_of(ctx, fr, call_function(ctx, fr, f, [container, x], owner=owner))
    if isinstance(container, Ref):
        m = I_.get_attr(ctx, fr, container, "__contains__")
        return I_.truth_of(ctx, fr, call(ctx, fr, m, [x], {}))
    if isinstance(container, HeapSet):
        return heapset_has(ctx, fr, container, x)
    if isinstance(container, PinMap):
        return pinmap_has(ctx, fr, container, x)
    if isinstance(container, HeapData):
        return data_has(ctx, fr, container, x)
    if isinstance(container, SDict):
        return sdict_has(ctx, fr, container, x)
    if isinstance(container, (tuple, list, set, frozenset)):
        return OR(*[obj_eq(ctx, fr, e, x) for e in container])
    if isinstance(container, dict):
        return OR(*[obj_eq(ctx, fr, e, x) for e in container])
    if isinstance(container, str):
        r, exc = lift(lambda s, y: y in s, container, x)
        return raw_bool(r)
    if isinstance(container, SAtom):
        r, exc = lift(lambda s, y: y in s, container, x)
        raise_if(ctx, fr, exc, "TypeError")
        return raw_bool(r)
    if container is None:
        raise_if(ctx, fr, True, "TypeError")
        return False
    raise Unsupported("`in` on %r" % (container,))


def subset(ctx, fr, a, b):
    return AND(*[OR(NOT(present(a, k)), contains(ctx, fr, b, a.el[k])) for k in range(a.cap)])


def is_(ctx, fr, a, b):
    from vf.e1 import nsmodel as NS
    if isinstance(a, NS.NSObj) or isinstance(b, NS.NSObj):
        ta = a.t if isinstance(a, NS.NSObj) else (NONE_ID if a is None else None)
        tb = b.t if isinstance(b, NS.NSObj) else (NONE_ID if b is None else None)
        if ta is None or tb is None:
            return False
        return EQ(ta, tb)
    if isinstance(a, Ref) or isinstance(b, Ref):
        if not isinstance(a, (Ref, type(None))) or not isinstance(b, (Ref, type(None))):
            return False
        return EQ(raw_ref(a), raw_ref(b))
    if isinstance(a, SOpt) or isinstance(b, SOpt):
        o, x = (a, b) if isinstance(a, SOpt) else (b, a)
        if x is None:
            return o.isnone
        return AND(NOT(o.isnone), is_(ctx, fr, o.val, x))
    if isinstance(a, SBool) or isinstance(b, SBool):
        if isinstance(a, (bool, SBool)) and isinstance(b, (bool, SBool)):
            return EQ(raw_bool(a), raw_bool(b))
        return False
    if isinstance(a, SAtom) or isinstance(b, SAtom):
        return obj_eq(ctx, fr, a, b)
    if isinstance(a, SInt) or isinstance(b, SInt):
        if isinstance(a, (int, SInt)) and isinstance(b, (int, SInt)) and not isinstance(a, bool) \
                and not isinstance(b, bool):
            return EQ(raw_int(a), raw_int(b))
        return False
    return a is b


def compare(ctx, fr, op, l, r):
    t = type(op)
    if t is ast.Is:
        return is_(ctx, fr, l, r)
    if t is ast.IsNot:
        return NOT(is_(ctx, fr, l, r))
    if t is ast.Eq:
        return obj_eq(ctx, fr, l, r)
    if t is ast.NotEq:
        return NOT(obj_eq(ctx, fr, l, r))
    if t is ast.In:
        return contains(ctx, fr, r, l)
    if t is ast.NotIn:
        return NOT(contains(ctx, fr, r, l))
    if isinstance(l, SOpt) or isinstance(r, SOpt):
        for o in (l, r):
            if isinstance(o, SOpt):
                raise_if(ctx, fr, o.isnone, "TypeError")
        l = l.val if isinstance(l, SOpt) else l
        r = r.val if isinstance(r, SOpt) else r
    if isinstance(l, (int, SInt)) and isinstance(r, (int, SInt)):
        a, b = raw_int(l), raw_int(r)
        return {ast.Lt: LT, ast.LtE: LE, ast.Gt: GT, ast.GtE: GE}[t](a, b)
    if isinstance(l, (str, SAtom)) and isinstance(r, (str, SAtom)):
        f = {ast.Lt: lambda x, y: x < y, ast.LtE: lambda x, y: x <= y,
             ast.Gt: lambda x, y: x > y, ast.GtE: lambda x, y: x >= y}[t]
        v, exc = lift(f, l, r)
        raise_if(ctx, fr, exc, "TypeError")
        return raw_bool(v)
    if l is None or r is None:
        raise_if(ctx, fr, True, "TypeError")
        return False
    if not is_symbolic_value(l) and not is_symbolic_value(r):
        return {ast.Lt: lambda x, y: x < y, ast.LtE: lambda x, y: x <= y,
                ast.Gt: lambda x, y: x > y, ast.GtE: lambda x, y: x >= y}[t](l, r)
    raise Unsupported("ordering comparison of %r and %r" % (l, r))


# ------------------------------------------------------------------------------------------------
def to_str(ctx, fr, v):
    if isinstance(v, str):
        return v
    if isinstance(v, SAtom):
        r, _ = lift(lambda x: str(x), v)
        return r
    if isinstance(v, SText):
        return v
    if isinstance(v, SOpt):
        # str(None) == "None"; otherwise the text of the value
        inner = to_str(ctx, fr, v.val)
        return inner if v.isnone is False else merge(v.isnone, "None", inner)
    if isinstance(v, SInt) and ctx.__dict__.get("text_ropes"):
        return SText("leaf", v)
    if isinstance(v, SInt):
        # small non-negative integers (list positions): tabulated; anything else trips the bound
        cap = 8
        out_of_range = OR(LT(v.t, 0), GE(v.t, cap))
        # (when the pre-state assumptions already confine the integer, no bound condition is recorded: it would
        #  only make every later step of the run conditional)
        if ctx.__dict__.get("path_assumptions") and out_of_range is not False:
            from vf.e1.interp import feasible
            if not feasible(ctx, AND(live(ctx, fr), out_of_range)):
                out_of_range = False
        bound_if(ctx, fr, out_of_range, "str() of an integer outside 0..%d" % (cap - 1))
        t = ATOMS.intern(str(cap - 1))
        dom = [t]
        for k in reversed(range(cap - 1)):
            a = ATOMS.intern(str(k))
            dom.append(a)
            t = ITE(EQ(v.t, k), a, t)
        return SAtom(t, dom)
    if isinstance(v, (Ref, Local)):
        return "<obj>"
    return str(v)


def concat_strs(ctx, fr, parts):
    r, exc = lift(lambda *xs: "".join(xs), *parts)
    raise_if(ctx, fr, exc, "TypeError")
    return r


def binop(ctx, fr, op, l, r):
    t = type(op)
    for o in (l, r):
        if isinstance(o, SOpt):
            raise_if(ctx, fr, o.isnone, "TypeError")
    if isinstance(l, SOpt):
        l = l.val
    if isinstance(r, SOpt):
        r = r.val
    if isinstance(l, (int, SInt)) and isinstance(r, (int, SInt)) and (
            isinstance(l, SInt) or isinstance(r, SInt)):
        a, b = raw_int(l), raw_int(r)
        if t is ast.Add:
            return mkint(ADD(a, b))
        if t is ast.Sub:
            return mkint(SUB(a, b))
        if t is ast.Mult:
            return mkint(MUL(a, b))
        if t is ast.FloorDiv:
            raise_if(ctx, fr, EQ(b, 0), "Other")
            return mkint(I(a) / I(b))     # z3 Int division is floor for positive divisors
        if t is ast.Mod:
            raise_if(ctx, fr, EQ(b, 0), "Other")
            return mkint(I(a) % I(b))
        raise Unsupported("int op %s" % t.__name__)
    if t is ast.Mult and ctx.__dict__.get("text_ropes") and isinstance(l, str) and isinstance(r, SInt):
        return SText("leaf", ("rep", l, r))        # indentation: a string repeated a symbolic number of times
    if t is ast.Add and (isinstance(l, SText) or isinstance(r, SText) or ctx.__dict__.get("text_ropes")) and \
            isinstance(l, (str, SAtom, SText)) and isinstance(r, (str, SAtom, SText)) and \
            not (isinstance(l, str) and isinstance(r, str)):
        # rope mode: text built from symbolic parts is kept as a rope instead of being tabulated
        return SText.cat(l, r)
    if isinstance(l, (str, SAtom)) and isinstance(r, (str, SAtom)) and t is ast.Add:
        v, exc = lift(lambda x, y: x + y, l, r)
        raise_if(ctx, fr, exc, "TypeError")
        return v
    if isinstance(l, (str, SAtom)) and t is ast.Mod:
        if isinstance(r, tuple):
            v, exc = lift(lambda f, *xs: f % tuple(xs), l, *r)
        else:
            v, exc = lift(lambda f, x: f % x, l, r)
        raise_if(ctx, fr, exc, "TypeError")
        return v
    if isinstance(l, SList) or isinstance(r, SList):
        if t is ast.Add:
            a = as_slist(ctx, fr, l)
            b = as_slist(ctx, fr, r)
            return seq_concat(ctx, fr, a, b)
        if t is ast.Sub and (getattr(l, "is_set", False)):
            b = as_slist(ctx, fr, r)
            out = SList(l.len, l.el, None, True,
                        [AND(present(l, k), NOT(contains(ctx, fr, b, l.el[k]))) for k in range(l.cap)])
            return out
        if t in (ast.BitOr,) and getattr(l, "is_set", False):
            return make_set(ctx, fr, seq_concat(ctx, fr, l, as_slist(ctx, fr, r)))
        if t in (ast.BitAnd,) and getattr(l, "is_set", False):
            b = as_slist(ctx, fr, r)
            return SList(l.len, l.el, None, True,
                         [AND(present(l, k), contains(ctx, fr, b, l.el[k])) for k in range(l.cap)])
        raise Unsupported("sequence op %s" % t.__name__)
    if isinstance(l, Local) and t is ast.Add:
        f, owner = I_.mro_lookup(l.cls, "__add__")
        return call_function(ctx, fr, f, [l, r], owner=owner)
    if isinstance(r, Local) and t is ast.Add:
        f, owner = I_.mro_lookup(r.cls, "__radd__")
        return call_function(ctx, fr, f, [r, l], owner=owner)
    if not is_symbolic_value(l) and not is_symbolic_value(r):
        import operator
        f = {ast.Add: operator.add, ast.Sub: operator.sub, ast.Mult: operator.mul,
             ast.FloorDiv: operator.floordiv, ast.Mod: operator.mod, ast.Div: operator.truediv,
             ast.BitOr: operator.or_, ast.BitAnd: operator.and_, ast.Pow: operator.pow,
             ast.LShift: operator.lshift, ast.RShift: operator.rshift,
             ast.BitXor: operator.xor}[t]
        try:
            return f(l, r)
        except TypeError:
            raise_if(ctx, fr, True, "TypeError")
            return None
    if isinstance(l, tuple) and isinstance(r, tuple) and t is ast.Add:
        return l + r
    raise Unsupported("binop %s on %r, %r" % (t.__name__, l, r))


def aug_binop(ctx, fr, op, cur, v):
    if isinstance(cur, SList) and isinstance(op, ast.Add):
        seq_extend(ctx, fr, cur, as_slist(ctx, fr, v))
        return INPLACE if (cur.home is not None and cur.home[0] != "sdict") else cur
    if isinstance(cur, Local) and isinstance(op, ast.Add):
        f, owner = I_.mro_lookup(cur.cls, "__iadd__")
        if f is not None:
            return call_function(ctx, fr, f, [cur, v], owner=owner)
    return binop(ctx, fr, op, cur, v)


# ------------------------------------------------------------------------------------------------
# sequences
def as_slist(ctx, fr, v):
    from vf.e1.vals import SGen
    if isinstance(v, SGen):
        return iter_values(ctx, fr, v, True)
    if isinstance(v, SList):
        return v
    if isinstance(v, (list, tuple)):
        return from_pylist(list(v))
    if isinstance(v, (set, frozenset)):
        s = from_pylist(list(v))
        s.is_set = True
        return s
    return iter_values(ctx, fr, v, want_slist=True)


def iter_values(ctx, fr, v, want_slist=False):
    """iteration order of `for x in v` as an SList (or python list of concrete items)"""
    from vf.e1.vals import SGen
    if isinstance(v, SGen):
        # one-shot: what a second pass sees is what the first pass left (nothing, modelling a full pass)
        sl = v.sl
        already = v.consumed
        v.consumed = OR(v.consumed, live(ctx, fr))
        if already is False:
            return sl
        return SList(sl.len, sl.el, None, sl.is_set, [AND(present(sl, k), NOT(already)) for k in range(sl.cap)])
    if isinstance(v, SList):
        return v
    if isinstance(v, (list, tuple)):
        return from_pylist(list(v)) if want_slist else list(v)
    if isinstance(v, (set, frozenset)):
        return from_pylist(list(v)) if want_slist else list(v)
    if isinstance(v, dict):
        return from_pylist(list(v)) if want_slist else list(v)
    if isinstance(v, HeapSet):
        return heapset_iter(ctx, fr, v)
    if isinstance(v, PinMap):
        return pinmap_keys(ctx, fr, v)
    if isinstance(v, HeapData):
        return data_keys(ctx, fr, v)
    if isinstance(v, SDict):
        return sdict_keys(ctx, fr, v)
    if isinstance(v, PyIter):
        return v.sl
    if isinstance(v, Local):
        f, owner = I_.mro_lookup(v.cls, "__iter__")
        if f is None:
            raise Unsupported("object of %s is not iterable" % v.cls)
        return iter_values(ctx, fr, call_function(ctx, fr, f, [v], owner=owner), want_slist)
    if isinstance(v, Ref):
        m = I_.get_attr(ctx, fr, v, "__iter__")
        return iter_values(ctx, fr, call(ctx, fr, m, [], {}), want_slist)
    if isinstance(v, range):
        return from_pylist(list(v)) if want_slist else list(v)
    if isinstance(v, str):
        return list(v)
    if hasattr(v, "__iter__") and not is_symbolic_value(v):
        return list(v)
    if v is None:
        raise_if(ctx, fr, True, "TypeError")
        return SList(0, [])
    raise Unsupported("iteration over %r" % (v,))


def unpack(ctx, fr, v, n):
    if isinstance(v, (tuple, list)):
        if len(v) != n:
            raise_if(ctx, fr, True, "ValueError")
            return [None] * n
        return list(v)
    if isinstance(v, SList):
        v = compact(v)
        raise_if(ctx, fr, NE(v.len, n), "ValueError")
        return [v.el[k] if k < v.cap else None for k in range(n)]
    raise Unsupported("unpack %r" % (v,))


def seq_index_norm(ctx, fr, sl, i):
    """normalise a python index against length; raises IndexError"""
    n = sl.len
    i = raw_int(i)
    j = ITE(LT(i, 0), ADD(i, n), i)
    raise_if(ctx, fr, OR(LT(j, 0), GE(j, n)), "IndexError")
    return j


def seq_get(ctx, fr, sl, i):
    sl = compact(sl)
    j = seq_index_norm(ctx, fr, sl, i)
    if not is_sym(j):
        if 0 <= j < sl.cap:
            return sl.el[j]
        return sl.el[0] if sl.el else None
    res = sl.el[sl.cap - 1] if sl.cap else None
    for k in reversed(range(sl.cap - 1)):
        res = merge(EQ(j, k), sl.el[k], res)
    return res


def commit(ctx, fr, sl, new):
    """in-place update of list object `sl` with the contents of `new` under the live guard"""
    g = live(ctx, fr)
    if sl.home is not None and sl.home[0] == "sdict":
        _, d_, rows, _ = sl.home
        for tok, cond in rows:
            hit = AND(g, cond)
            if hit is False:
                continue
            pr, old = d_.e[tok]
            d_.e[tok] = [pr, merge(hit, compact(new).copy(), old)]
    elif sl.home is not None:
        kind, c, field, t = sl.home
        over = ctx.h.write_list(g, c, field, t, new)
        bound_if(ctx, fr, over, "list capacity exceeded in %s.%s" % (c, field))
        # an in-place mutation is seen through every alias of the same list object
        for a in ctx.__dict__.get("aliases", []):
            for side in (0, 1):
                c_, f_, t_ = a[side]
                oc, of, ot = a[1 - side]
                if (c_, f_) == (c, field):
                    cond = AND(g, a[2], EQ(t_, t))
                    if cond is not False:
                        ctx.h.write_list(cond, oc, of, ot, compact(new))
    cap = max(sl.cap, new.cap)
    el = []
    for k in range(cap):
        a = new.el[k] if k < new.cap else (sl.el[k] if k < sl.cap else None)
        b = sl.el[k] if k < sl.cap else a
        el.append(merge(g, a, b))
    sl.len = ITE(g, new.len, sl.len)
    sl.el = el
    sl.mask = None


def seq_insert(ctx, fr, sl, pos, x):
    d = compact(sl)
    n = d.len
    cap = d.cap
    if sl.home is None or sl.home[0] == "sdict":
        cap = cap + 1 if (is_sym(n) or n >= cap) and cap < ctx.u.K * 3 else cap
    bound_if(ctx, fr, GE(n, cap), "list capacity %d exceeded by insert" % cap)
    p = raw_int(pos)
    p = ITE(LT(p, 0), MAX(ADD(p, n), 0), MIN(p, n))
    el = []
    for k in range(cap):
        cur = d.el[k] if k < d.cap else None
        prev = d.el[k - 1] if 0 < k <= d.cap else cur
        if cur is None:
            cur = prev
        v = merge(LT(k, p), cur, merge(EQ(k, p), x, prev)) if True else None
        el.append(v)
    commit(ctx, fr, sl, SList(ADD(n, 1), el))


def seq_remove_at(ctx, fr, sl, idx):
    d = compact(sl)
    el = []
    for k in range(d.cap):
        nxt = d.el[k + 1] if k + 1 < d.cap else d.el[k]
        el.append(merge(LT(k, idx), d.el[k], nxt))
    commit(ctx, fr, sl, SList(SUB(d.len, 1), el))


def seq_first_index(ctx, fr, sl, x):
    """(found, index of first element == x)"""
    d = compact(sl)
    hits = [AND(LT(k, d.len), obj_eq(ctx, fr, d.el[k], x)) for k in range(d.cap)]
    first = d.cap
    for k in reversed(range(d.cap)):
        first = ITE(hits[k], k, first)
    return OR(*hits), first, d


def seq_concat(ctx, fr, a, b):
    a, b = compact(a), compact(b)
    cap = a.cap + b.cap
    el = []
    for k in range(cap):
        # element k: a[k] if k < a.len else b[k - a.len]
        v = None
        for j in reversed(range(b.cap)):
            cond = EQ(SUB(k, a.len), j)
            if cond is False:
                continue
            v = b.el[j] if v is None else merge(cond, b.el[j], v)
        if k < a.cap:
            v = a.el[k] if v is None else merge(LT(k, a.len), a.el[k], v)
        el.append(v)
    return SList(ADD(a.len, b.len), el)


def seq_extend(ctx, fr, sl, other):
    new = seq_concat(ctx, fr, sl, other)
    if sl.home is not None and sl.home[0] != "sdict":
        cap = ctx.u.cap(sl.home[1], sl.home[2])
        bound_if(ctx, fr, GT(new.len, cap), "list capacity exceeded by extend")
    commit(ctx, fr, sl, new)


def getslice(ctx, fr, obj, lo, hi, st):
    if isinstance(obj, Local):
        f, owner = I_.mro_lookup(obj.cls, "__getitem__")
        inner = obj.f.get("_list")
        if inner is not None and f is not None:
            return getslice(ctx, fr, inner, lo, hi, st)
        raise Unsupported("slice of %s" % obj.cls)
    if isinstance(obj, (str, SAtom)):
        if st is not None:
            raise Unsupported("string slice step")
        v, exc = lift(lambda s, a, b: s[a:b], obj, lo, hi)
        raise_if(ctx, fr, exc, "TypeError")
        return v
    if isinstance(obj, (list, tuple)) and not any(isinstance(x, (SInt, SOpt)) for x in (lo, hi, st)):
        return obj[lo:hi:st]
    sl = compact(as_slist(ctx, fr, obj))
    if st is not None:
        if st == -1 and lo is None and hi is None:
            return seq_reversed(ctx, fr, sl)
        raise Unsupported("slice step")
    n = sl.len

    def norm(x, default):
        if x is None:
            return default
        x = raw_int(x)
        return ITE(LT(x, 0), MAX(ADD(x, n), 0), MIN(x, n))
    a = norm(lo, 0)
    b = norm(hi, n)
    ln = MAX(SUB(b, a), 0)
    el = []
    for j in range(sl.cap):
        v = None
        for k in reversed(range(sl.cap)):
            cond = EQ(ADD(a, j), k)
            if cond is False:
                continue
            v = sl.el[k] if v is None else merge(cond, sl.el[k], v)
        el.append(v if v is not None else (sl.el[0] if sl.el else None))
    return SList(ln, el)


def seq_reversed(ctx, fr, sl):
    sl = compact(sl)
    el = []
    for j in range(sl.cap):
        v = None
        for k in reversed(range(sl.cap)):
            cond = EQ(SUB(SUB(sl.len, 1), j), k)
            if cond is False:
                continue
            v = sl.el[k] if v is None else merge(cond, sl.el[k], v)
        el.append(v if v is not None else sl.el[0])
    return SList(sl.len, el)


def make_set(ctx, fr, sl):
    """set(seq): same slots, duplicates (under ==) masked out"""
    sl = as_slist(ctx, fr, sl)
    mask = []
    for k in range(sl.cap):
        dup = OR(*[AND(present(sl, j), obj_eq(ctx, fr, sl.el[j], sl.el[k])) for j in range(k)])
        mask.append(AND(present(sl, k), NOT(dup)))
    return SList(sl.len, sl.el, None, True, mask)


def comprehension(ctx, fr, e):
    if len(e.generators) != 1:
        return comprehension_nested(ctx, fr, e)
    gen = e.generators[0]
    it = iter_values(ctx, fr, I_.ev(ctx, fr, gen.iter), want_slist=True)
    g0 = fr.g
    el, mask = [], []
    sub = I_.Frame(fr.fn, fr.g, fr.globals, fr.owner)
    sub.closure_of = fr
    sub.parent = fr
    sub.yields = None
    for k in range(it.cap):
        sub.g = AND(g0, present(it, k))
        fr_g = sub.g
        if live(ctx, sub) is False:
            el.append(None)
            mask.append(False)
            continue
        I_.assign(ctx, sub, gen.target, it.el[k])
        keep = present(it, k)
        for cond in gen.ifs:
            c = I_.ev_truth(ctx, sub, cond)
            keep = AND(keep, c)
            sub.g = AND(sub.g, c)
        v = I_.ev(ctx, sub, e.elt) if keep is not False else None
        el.append(v)
        mask.append(keep)
    # fill holes with a representative so that merges stay well-typed
    rep = next((x for x in el if x is not None), None)
    el = [rep if x is None and m is False else x for x, m in zip(el, mask)]
    if all(m is True for m in mask):
        return SList(len(el), el)
    out = SList(len(el), el, None, False, mask)
    return out


def dict_comprehension(ctx, fr, e):
    if len(e.generators) != 1:
        raise Unsupported("nested dict comprehension")
    gen = e.generators[0]
    it = iter_values(ctx, fr, I_.ev(ctx, fr, gen.iter), want_slist=True)
    g0 = fr.g
    d = SDict()
    sub = I_.Frame(fr.fn, fr.g, fr.globals, fr.owner)
    sub.closure_of = fr
    sub.parent = fr
    for k in range(it.cap):
        sub.g = AND(g0, present(it, k))
        if live(ctx, sub) is False:
            continue
        I_.assign(ctx, sub, gen.target, it.el[k])
        for cond in gen.ifs:
            sub.g = AND(sub.g, I_.ev_truth(ctx, sub, cond))
        if live(ctx, sub) is False:
            continue
        sdict_set(ctx, sub, d, I_.ev(ctx, sub, e.key), I_.ev(ctx, sub, e.value))
    return d


def comprehension_nested(ctx, fr, e):
    # rewrite as nested loops appending to a list
    out = SList(0, [None] * (ctx.u.K * ctx.u.K))
    sub = I_.Frame(fr.fn, fr.g, fr.globals, fr.owner)
    sub.closure_of = fr
    sub.parent = fr
    items = []

    def rec(i, g):
        if i == len(e.generators):
            sub.g = g
            items.append((g, I_.ev(ctx, sub, e.elt)))
            return
        gen = e.generators[i]
        sub.g = g
        it = iter_values(ctx, sub, I_.ev(ctx, sub, gen.iter), want_slist=True)
        for k in range(it.cap):
            gk = AND(g, present(it, k))
            sub.g = gk
            if live(ctx, sub) is False:
                continue
            I_.assign(ctx, sub, gen.target, it.el[k])
            for cond in gen.ifs:
                c = I_.ev_truth(ctx, sub, cond)
                gk = AND(gk, c)
                sub.g = gk
            rec(i + 1, gk)
    rec(0, fr.g)
    if not items:
        return SList(0, [])
    g0 = live(ctx, fr)
    return compact(SList(len(items), [v for _, v in items], None, False,
                         [g if g0 is True else AND(g) for g, _ in items]))


def all_any(ctx, fr, is_all, gen):
    """all(genexp)/any(genexp) with python's short-circuit evaluation order"""
    g = gen.generators[0]
    if len(gen.generators) != 1:
        raise Unsupported("nested generator in all/any")
    it = iter_values(ctx, fr, I_.ev(ctx, fr, g.iter), want_slist=True)
    g0 = fr.g
    sub = I_.Frame(fr.fn, fr.g, fr.globals, fr.owner)
    sub.closure_of = fr
    sub.parent = fr
    going = True       # no verdict yet
    res = True if is_all else False
    for k in range(it.cap):
        sub.g = AND(g0, going, present(it, k))
        if live(ctx, sub) is False:
            continue
        I_.assign(ctx, sub, g.target, it.el[k])
        keep = True
        for cond in g.ifs:
            c = I_.ev_truth(ctx, sub, cond)
            keep = AND(keep, c)
            sub.g = AND(sub.g, c)
        v = I_.ev_truth(ctx, sub, gen.elt)
        here = AND(going, present(it, k), keep)
        if is_all:
            res = AND(res, OR(NOT(here), v))
            going = AND(going, OR(NOT(here), v))
        else:
            res = OR(res, AND(here, v))
            going = AND(going, OR(NOT(here), NOT(v)))
    return mkbool(res)


# ------------------------------------------------------------------------------------------------
# Definition._references (bitmap over instance slots)
def _each_def(ctx, dref):
    u = ctx.u
    for d in range(u.n["Definition"]):
        c = EQ(dref.t, u.gid("Definition", d))
        if c is not False:
            yield d, c


def heapset_has(ctx, fr, hs, x):
    u, h = ctx.u, ctx.h
    if not isinstance(x, Ref):
        return False
    r = False
    for d, cd in _each_def(ctx, hs.dref):
        for i in range(u.n["Instance"]):
            r = OR(r, AND(cd, EQ(x.t, u.gid("Instance", i)), h.refs[d][i]))
    return r


def heapset_iter(ctx, fr, hs):
    u, h = ctx.u, ctx.h
    n = u.n["Instance"]
    mask = []
    for i in range(n):
        m = False
        for d, cd in _each_def(ctx, hs.dref):
            m = OR(m, AND(cd, h.refs[d][i]))
        mask.append(m)
    return SList(n, [Ref(u.gid("Instance", i), ("Instance",)) for i in range(n)], None, True, mask)


def heapset_update(ctx, fr, hs, x, value, must_exist=False):
    u, h = ctx.u, ctx.h
    g = live(ctx, fr)
    if must_exist:
        raise_if(ctx, fr, NOT(heapset_has(ctx, fr, hs, x)), "KeyError")
        g = live(ctx, fr)
    if not isinstance(x, Ref) or "Instance" not in x.cands:
        raise Unsupported("non-instance in references set")
    raise_if(ctx, fr, NOT(u.isin(x.t, "Instance")), "Other")
    for d, cd in _each_def(ctx, hs.dref):
        for i in range(u.n["Instance"]):
            hit = AND(g, cd, EQ(x.t, u.gid("Instance", i)))
            if hit is not False:
                h.refs[d][i] = ITE(hit, value, h.refs[d][i])


def refs_assign(ctx, fr, ref, v):
    u, h = ctx.u, ctx.h
    g = live(ctx, fr)
    src = as_slist(ctx, fr, v) if not isinstance(v, HeapSet) else heapset_iter(ctx, fr, v)
    for d, cd in _each_def(ctx, ref):
        for i in range(u.n["Instance"]):
            member = contains(ctx, fr, src, Ref(u.gid("Instance", i), ("Instance",)))
            hit = AND(g, cd)
            h.refs[d][i] = ITE(hit, member, h.refs[d][i])


# Instance._pins (inner pin -> outer pin)
def _each_inst(ctx, iref):
    u = ctx.u
    for i in range(u.n["Instance"]):
        c = EQ(iref.t, u.gid("Instance", i))
        if c is not False:
            yield i, c


def _each_ip(ctx, key):
    u = ctx.u
    if not isinstance(key, Ref):
        return
    for p in range(u.n["InnerPin"]):
        c = EQ(key.t, u.gid("InnerPin", p))
        if c is not False:
            yield p, c


def pinmap_has(ctx, fr, pm, key):
    """dict membership: keys are InnerPins (identity hash); an OuterPin key hashes on its pair
    and never equals an InnerPin"""
    h = ctx.h
    r = False
    for i, ci in _each_inst(ctx, pm.iref):
        for p, cp in _each_ip(ctx, key):
            r = OR(r, AND(ci, cp, NE(h.pinmap[i][p], NONE_ID)))
    return r


def pinmap_get(ctx, fr, pm, key):
    h = ctx.h
    r = NONE_ID
    for i, ci in _each_inst(ctx, pm.iref):
        for p, cp in _each_ip(ctx, key):
            r = ITE(AND(ci, cp), h.pinmap[i][p], r)
    return Ref(r, ("OuterPin",))


def pinmap_set(ctx, fr, pm, key, val):
    h, u = ctx.h, ctx.u
    g = live(ctx, fr)
    if not isinstance(key, Ref) or not (key.cands & {"InnerPin"}):
        raise Unsupported("pin map key %r" % (key,))
    raise_if(ctx, fr, NOT(u.isin(key.t, "InnerPin")), "Other")
    g = live(ctx, fr)
    raw = raw_ref(val)
    for i, ci in _each_inst(ctx, pm.iref):
        for p, cp in _each_ip(ctx, key):
            hit = AND(g, ci, cp)
            if hit is not False:
                h.pinmap[i][p] = ITE(hit, raw, h.pinmap[i][p])


def pinmap_del(ctx, fr, pm, key):
    raise_if(ctx, fr, NOT(pinmap_has(ctx, fr, pm, key)), "KeyError")
    v = pinmap_get(ctx, fr, pm, key)
    pinmap_set(ctx, fr, pm, key, None)
    return v


def pinmap_keys(ctx, fr, pm, values=False, items=False):
    u, h = ctx.u, ctx.h
    n = u.n["InnerPin"]
    mask, vals = [], []
    for p in range(n):
        v = NONE_ID
        for i, ci in _each_inst(ctx, pm.iref):
            v = ITE(ci, h.pinmap[i][p], v)
        mask.append(NE(v, NONE_ID))
        vals.append(Ref(v, ("OuterPin",)))
    keys = [Ref(u.gid("InnerPin", p), ("InnerPin",)) for p in range(n)]
    if items:
        el = [(k, v) for k, v in zip(keys, vals)]
    elif values:
        el = vals
    else:
        el = keys
    return SList(n, el, None, False, mask)


def pinmap_assign(ctx, fr, ref, v):
    u, h = ctx.u, ctx.h
    g = live(ctx, fr)
    for i, ci in _each_inst(ctx, ref):
        hit = AND(g, ci)
        if hit is False:
            continue
        for p in range(u.n["InnerPin"]):
            key = Ref(u.gid("InnerPin", p), ("InnerPin",))
            if isinstance(v, PinMap):
                newv = ITE(pinmap_has(ctx, fr, v, key), pinmap_get(ctx, fr, v, key).t, NONE_ID)
            elif isinstance(v, SDict):
                newv = ITE(sdict_has(ctx, fr, v, key), raw_ref(sdict_get_raw(ctx, fr, v, key, None)),
                           NONE_ID)
            elif isinstance(v, dict) and not v:
                newv = NONE_ID
            else:
                raise Unsupported("assign %r to Instance._pins" % (v,))
            h.pinmap[i][p] = ITE(hit, newv, h.pinmap[i][p])


# FirstClassElement._data
def _each_fce(ctx, ref):
    u = ctx.u
    for c in FCE:
        if c not in ref.cands:
            continue
        for i in range(u.n[c]):
            cond = EQ(ref.t, u.gid(c, i))
            if cond is not False:
                yield c, i, cond


def _key_rows(ctx, key, write=False):
    """[(key index, cond)] for a python/atom key; keys outside the universe's key list are
    Unsupported (the harness chooses the key list)"""
    u = ctx.u
    if isinstance(key, SAtom):
        rows = []
        for i in key.dom:
            s = ATOMS.vals[i]
            if isinstance(s, str) and s in u.keys:
                rows.append((u.keys.index(s), EQ(key.t, i)))
            elif isinstance(s, str) and write:
                raise Unsupported("data key %r outside the key universe" % (s,))
            # non-string candidates (None) are never keys of a data dictionary: no row
        return rows
    if key in u.keys:
        return [(u.keys.index(key), True)]
    if isinstance(key, str) and write:
        raise Unsupported("data key %r outside the key universe %s" % (key, u.keys))
    # reading a key outside the universe's key list: no element carries it (bound of the universe)
    return []


def data_has(ctx, fr, hd, key):
    h = ctx.h
    r = False
    for c, i, cond in _each_fce(ctx, hd.ref):
        for k, ck in _key_rows(ctx, key):
            r = OR(r, AND(cond, ck, h.data[c][i][k][0]))
    return r


def data_get(ctx, fr, hd, key):
    h = ctx.h
    t = 0
    dom = set()
    for c, i, cond in _each_fce(ctx, hd.ref):
        for k, ck in _key_rows(ctx, key):
            v_ = h.data[c][i][k][1]
            t = ITE(AND(cond, ck), v_, t)
            dom |= set(h.key_dom(k)) if is_sym(v_) else {v_}
            # NOTE (known approximation, DESIGN 9.5): a string BUILT by the code and stored here is read back with the
            # universe's alphabet as its domain; tabulating over such a value again is exact only for alphabet values.
            # Tracking the exact written domains (tried) makes the domains multiply at every rebuild.
    if not is_sym(t):
        return ATOMS.vals[t]
    if len(dom) == 1:
        return ATOMS.vals[list(dom)[0]]      # single-valued key (uniform naming policy)
    return SAtom(t, sorted(dom | {0}))


def data_set(ctx, fr, hd, key, val, present_flag=True):
    h = ctx.h
    g = live(ctx, fr)
    a = to_atom(val) if present_flag else None
    for c, i, cond in _each_fce(ctx, hd.ref):
        for k, ck in _key_rows(ctx, key, write=True):
            hit = AND(g, cond, ck)
            if hit is False:
                continue
            pr, v = h.data[c][i][k]
            if present_flag:
                h.data[c][i][k] = (ITE(hit, True, pr), ITE(hit, a.t, v))
            else:
                h.data[c][i][k] = (ITE(hit, False, pr), v)


def data_keys(ctx, fr, hd):
    u, h = ctx.u, ctx.h
    mask = []
    for k in range(len(u.keys)):
        m = False
        for c, i, cond in _each_fce(ctx, hd.ref):
            m = OR(m, AND(cond, h.data[c][i][k][0]))
        mask.append(m)
    return SList(len(u.keys), list(u.keys), None, False, mask)


def data_assign(ctx, fr, ref, v):
    u, h = ctx.u, ctx.h
    g = live(ctx, fr)
    for c, i, cond in _each_fce(ctx, ref):
        hit = AND(g, cond)
        if hit is False:
            continue
        for k in range(len(u.keys)):
            pr, val = h.data[c][i][k]
            if isinstance(v, HeapData):
                npr = data_has(ctx, fr, v, u.keys[k])
                nv = to_atom(data_get(ctx, fr, v, u.keys[k])).t
            elif isinstance(v, dict):
                if u.keys[k] in v:
                    npr, nv = True, to_atom(v[u.keys[k]]).t
                else:
                    npr, nv = False, val
                for kk in v:
                    if kk not in u.keys:
                        raise Unsupported("data key %r outside key universe" % (kk,))
            elif isinstance(v, SDict):
                npr = sdict_has(ctx, fr, v, u.keys[k])
                nv = to_atom(sdict_get_raw(ctx, fr, v, u.keys[k], None)).t
            else:
                raise Unsupported("assign %r to _data" % (v,))
            h.data[c][i][k] = (ITE(hit, npr, pr), ITE(hit, nv, val))


# generic symbolic dict
def _tok(ctx, key):
    """[(token, cond)] candidate tokens of a key value"""
    if isinstance(key, Ref):
        out = []
        for c in sorted(key.cands):
            for gid in ctx.u.ids(c):
                cond = EQ(key.t, gid)
                if cond is not False:
                    out.append((("r", gid), cond))
        return out
    if isinstance(key, SAtom):
        c, v = atom_concrete(key)
        if c:
            return [(("a", ATOMS.intern(v)), True)]
        return [(("a", i), EQ(key.t, i)) for i in key.dom]
    if isinstance(key, (SInt, SBool, SList, Local)):
        raise Unsupported("dict key %r" % (key,))
    return [(("a", ATOMS.intern(key)), True)]


def _untok(ctx, tok):
    if tok[0] == "r":
        c, _ = ctx.u.cls_of(tok[1])
        return Ref(tok[1], (c,))
    return ATOMS.vals[tok[1]]


def make_dict(ctx, fr, pairs):
    d = SDict()
    ctx.__dict__.setdefault("created_dicts", []).append(d)
    if not pairs:
        return d
    for k, v in pairs:
        sdict_set(ctx, fr, d, k, v)
    return d


def _matches(ctx, fr, d, key):
    """[(token, cond)] entries of d whose key == `key` (python dict semantics: ==, so OuterPin
    keys match by (instance, inner_pin))"""
    if isinstance(key, Ref) and _custom_eq(ctx, key):
        out = []
        for tok in d.e:
            if tok[0] != "r":
                continue
            c, _ = ctx.u.cls_of(tok[1])
            cond = ref_eq(ctx, fr, Ref(tok[1], (c,)), key)
            if cond is not False:
                out.append((tok, cond))
        return out
    return [(tok, cond) for tok, cond in _tok(ctx, key) if tok in d.e]


def _custom_eq(ctx, ref):
    return any(isinstance(I_.mro_lookup(ctx.real[c], "__eq__")[0], types.FunctionType)
               for c in ref.cands)


def sdict_has(ctx, fr, d, key):
    r = False
    for tok, cond in _matches(ctx, fr, d, key):
        r = OR(r, AND(cond, d.e[tok][0]))
    return r


def sdict_get_raw(ctx, fr, d, key, default):
    res = default
    first = True
    for tok, cond in _matches(ctx, fr, d, key):
        if tok in d.e:
            pr, v = d.e[tok]
            c2 = AND(cond, pr)
            if c2 is False:
                continue
            if first and res is None:
                # no default to fall back to (d[key] raises when absent; d.get(key) yields None only
                # when no candidate is present): the first candidate's value is the base of the chain
                try:
                    res = v if c2 is True else merge(c2, v, None)
                except Unsupported:
                    res = v
            else:
                res = merge(c2, v, res)
            first = False
    return res


def sdict_set(ctx, fr, d, key, val):
    g = live(ctx, fr)
    if isinstance(key, Ref) and _custom_eq(ctx, key):
        # an equal key already present keeps its key object; only the value is replaced
        already = False
        for tok, cond in _matches(ctx, fr, d, key):
            pr, v = d.e[tok]
            hit = AND(g, cond, pr)
            if hit is False:
                continue
            d.e[tok] = [pr, merge(hit, val, v)]
            already = OR(already, AND(cond, pr))
        g = AND(g, NOT(already))
    for tok, cond in _tok(ctx, key):
        hit = AND(g, cond)
        if hit is False:
            continue
        if tok in d.e:
            pr, v = d.e[tok]
            d.e[tok] = [OR(pr, hit), merge(hit, val, v) if pr is not False else val]
        else:
            d.e[tok] = [hit, val]
            d.order.append(tok)


def sdict_del(ctx, fr, d, key, must=True):
    if must:
        raise_if(ctx, fr, NOT(sdict_has(ctx, fr, d, key)), "KeyError")
    g = live(ctx, fr)
    for tok, cond in _matches(ctx, fr, d, key):
        hit = AND(g, cond)
        if tok in d.e and hit is not False:
            pr, v = d.e[tok]
            d.e[tok] = [AND(pr, NOT(hit)), v]


def sdict_keys(ctx, fr, d, values=False, items=False):
    toks = [t for t in d.order if t in d.e]
    el, mask = [], []
    for t in toks:
        pr, v = d.e[t]
        k = _untok(ctx, t)
        el.append((k, v) if items else (v if values else k))
        mask.append(pr)
    if all(m is True for m in mask):
        return SList(len(el), el)
    return SList(len(el), el, None, False, mask)


# ------------------------------------------------------------------------------------------------
def getitem(ctx, fr, obj, key):
    from vf.e1 import nsmodel as NS
    if isinstance(obj, NS.NSManagerDict):
        raise_if(ctx, fr, NOT(NS.mgr_has(ctx, fr, key)), "KeyError")
        return NS.NSObj(raw_ref(key))
    if isinstance(obj, NS.NSTypeDict):
        raise_if(ctx, fr, NOT(NS.typ_has(ctx, obj, key)), "KeyError")
        return NS.NSNameDict(obj.t, obj.kind, key)
    if isinstance(obj, NS.NSNameDict):
        raise_if(ctx, fr, NOT(NS.name_has(ctx, obj, key)), "KeyError")
        return NS.name_get(ctx, obj, key)
    if isinstance(obj, SList):
        return seq_get(ctx, fr, obj, key)
    if isinstance(obj, PinMap):
        raise_if(ctx, fr, NOT(pinmap_has(ctx, fr, obj, key)), "KeyError")
        return pinmap_get(ctx, fr, obj, key)
    if isinstance(obj, HeapData):
        raise_if(ctx, fr, NOT(data_has(ctx, fr, obj, key)), "KeyError")
        return data_get(ctx, fr, obj, key)
    if isinstance(obj, SDict):
        raise_if(ctx, fr, NOT(sdict_has(ctx, fr, obj, key)), "KeyError")
        v = sdict_get_raw(ctx, fr, obj, key, None)
        rows = [(tok, AND(cond, obj.e[tok][0])) for tok, cond in _matches(ctx, fr, obj, key) if tok in obj.e]
        rows = [(tok, c) for tok, c in rows if c is not False]
        if isinstance(v, SList) and rows and not (len(rows) == 1 and v is obj.e[rows[0][0]][1]):
            # d[key] is a list object held by the dict: in-place mutations of the (merged) handle are written
            # back to every entry the symbolic key may denote (python reference semantics)
            v = SList(v.len, v.el, ("sdict", obj, rows, None), v.is_set, v.mask)
        return v
    if isinstance(obj, Local):
        f, owner = I_.mro_lookup(obj.cls, "__getitem__")
        if f is None:
            raise Unsupported("no __getitem__ on %s" % obj.cls)
        return call_function(ctx, fr, f, [obj, key], owner=owner)
    if isinstance(obj, Ref):
        m = I_.get_attr(ctx, fr, obj, "__getitem__")
        return call(ctx, fr, m, [key], {})
    if isinstance(obj, (tuple, list)):
        if isinstance(key, SInt):
            return seq_get(ctx, fr, from_pylist(list(obj)), key)
        return obj[key]
    if isinstance(obj, dict):
        if isinstance(key, (SAtom, Ref)):
            res, found = None, False
            for k, v in obj.items():
                c = obj_eq(ctx, fr, k, key)
                if c is False:
                    continue
                res = v if res is None else merge(c, v, res)
                found = OR(found, c)
            raise_if(ctx, fr, NOT(found), "KeyError")
            return res
        if key not in obj:
            raise_if(ctx, fr, True, "KeyError")
            return None
        return obj[key]
    if isinstance(obj, (str, SAtom)):
        v, exc = lift(lambda s, i: s[i], obj, key if not isinstance(key, SInt) else _unsup("str index"))
        raise_if(ctx, fr, exc, "IndexError")
        return v
    if obj is None:
        raise_if(ctx, fr, True, "TypeError")
        return None
    raise Unsupported("getitem on %r" % (obj,))


def _unsup(msg):
    raise Unsupported(msg)


def setitem(ctx, fr, obj, key, v):
    from vf.e1 import nsmodel as NS
    if isinstance(obj, NS.NSManagerDict):
        NS.mgr_set(ctx, fr, key, live(ctx, fr), True)
        if isinstance(v, Local):
            # the object just stored IS the namespace of `key` from now on (aliasing): later uses
            # of the local handle operate on the heap-resident tables
            v.f["__fwd__"] = NS.NSObj(raw_ref(key))
        return None
    if isinstance(obj, NS.NSTypeDict):
        return NS.typ_set_empty(ctx, obj, key, live(ctx, fr))
    if isinstance(obj, NS.NSNameDict):
        return NS.name_set(ctx, obj, key, v, live(ctx, fr), True)
    if isinstance(obj, PinMap):
        return pinmap_set(ctx, fr, obj, key, v)
    if isinstance(obj, HeapData):
        return data_set(ctx, fr, obj, key, v)
    if isinstance(obj, SDict):
        return sdict_set(ctx, fr, obj, key, v)
    if isinstance(obj, Ref):
        m = I_.get_attr(ctx, fr, obj, "__setitem__")
        return call(ctx, fr, m, [key, v], {})
    if isinstance(obj, Local):
        f, owner = I_.mro_lookup(obj.cls, "__setitem__")
        return call_function(ctx, fr, f, [obj, key, v], owner=owner)
    if isinstance(obj, SList):
        d = compact(obj)
        j = seq_index_norm(ctx, fr, d, key)
        el = [merge(EQ(j, k), v, d.el[k]) for k in range(d.cap)]
        return commit(ctx, fr, obj, SList(d.len, el))
    if isinstance(obj, dict):
        if live(ctx, fr) is True and not isinstance(key, (SAtom, Ref)):
            obj[key] = v
            return
        raise Unsupported("guarded store into a python dict; use SDict")
    raise Unsupported("setitem on %r" % (obj,))


def delitem(ctx, fr, obj, key):
    from vf.e1 import nsmodel as NS
    if isinstance(obj, NS.NSManagerDict):
        raise_if(ctx, fr, NOT(NS.mgr_has(ctx, fr, key)), "KeyError")
        return NS.mgr_set(ctx, fr, key, live(ctx, fr), False)
    if isinstance(obj, NS.NSNameDict):
        raise_if(ctx, fr, NOT(NS.name_has(ctx, obj, key)), "KeyError")
        return NS.name_set(ctx, obj, key, None, live(ctx, fr), False)
    if isinstance(obj, PinMap):
        return pinmap_del(ctx, fr, obj, key)
    if isinstance(obj, HeapData):
        raise_if(ctx, fr, NOT(data_has(ctx, fr, obj, key)), "KeyError")
        return data_set(ctx, fr, obj, key, None, present_flag=False)
    if isinstance(obj, SDict):
        return sdict_del(ctx, fr, obj, key)
    if isinstance(obj, Ref):
        m = I_.get_attr(ctx, fr, obj, "__delitem__")
        return call(ctx, fr, m, [key], {})
    if isinstance(obj, Local):
        f, owner = I_.mro_lookup(obj.cls, "__delitem__")
        return call_function(ctx, fr, f, [obj, key], owner=owner)
    raise Unsupported("delitem on %r" % (obj,))


def local_truth(ctx, fr, v):
    for nm in ("__bool__", "__len__"):
        f, owner = I_.mro_lookup(v.cls, nm)
        if f is not None and isinstance(f, types.FunctionType):
            r = call_function(ctx, fr, f, [v], owner=owner)
            return I_.truth_of(ctx, fr, r)
    return True


from vf.e1.calls import call, sym_method  # noqa: E402  (split for size)


def seq_get_guarded(ctx, fr, sl, idx):
    """element at raw index idx without raising (caller established the bound)"""
    if not sl.cap:
        return None
    if not is_sym(idx):
        return sl.el[idx] if 0 <= idx < sl.cap else sl.el[0]
    res = sl.el[sl.cap - 1]
    for k in reversed(range(sl.cap - 1)):
        res = merge(EQ(idx, k), sl.el[k], res)
    return res


def getitem_noexc(ctx, fr, obj, key):
    if isinstance(obj, HeapData):
        return data_get(ctx, fr, obj, key)
    if isinstance(obj, SDict):
        return sdict_get_raw(ctx, fr, obj, key, None)
    if isinstance(obj, dict):
        return obj.get(key)
    if isinstance(obj, Local) and "_dict" in obj.f:
        return getitem_noexc(ctx, fr, obj.f["_dict"], key)
    raise Unsupported("getitem_noexc on %r" % (obj,))
