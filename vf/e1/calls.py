"""Call dispatch, modelled builtins and methods of symbolic containers for engine E1."""
import collections
import copy as _copy
import sys
import types
import weakref

from vf.e1.sym import (Ref, SInt, SBool, SAtom, ATOMS, NONE_ID, is_sym, ITE, AND, OR, NOT, EQ, NE,
                       LT, LE, GE, GT, ADD, SUB, MUL, MIN, MAX, Unsupported, mkbool, mkint, lift,
                       atom_concrete)
from vf.e1.heap import SList, CLASSES
from vf.e1.vals import (Local, BoundMethod, RefMethod, SymMethod, SuperProxy, HeapSet, PinMap,
                        HeapData, SOpt, merge, truth, raw_bool, raw_int, raw_ref, present, seq_len,
                        compact, from_pylist, PyIter, to_atom)
from vf.e1 import interp as I_
from vf.e1.interp import live, raise_if, bound_if, call_function, Closure, call_closure


def ops():
    from vf.e1 import ops as o
    return o


def call(ctx, fr, f, args, kwargs):
    o = ops()
    if f is o.NOOP:
        return None
    if f is None:
        # calling None (e.g. a method looked up on a None receiver after the AttributeError was recorded): TypeError
        raise_if(ctx, fr, True, "TypeError")
        return None
    if isinstance(f, RefMethod):
        return call_refmethod(ctx, fr, f, args, kwargs)
    if isinstance(f, BoundMethod):
        return call_function(ctx, fr, f.fn, [f.selfv] + list(args), kwargs, owner=f.owner)
    if isinstance(f, SymMethod):
        return sym_method(ctx, fr, f.obj, f.name, args, kwargs)
    if isinstance(f, Closure):
        return call_closure(ctx, fr, f, args, kwargs)
    if f in ctx.natives:
        return ctx.natives[f](ctx, fr, args, kwargs)
    if isinstance(f, types.MethodType):
        # bound method of a real python object (e.g. a listener): interpret with a Local self
        selfv = f.__self__
        handler = ctx.natives.get(type(selfv))
        if handler is not None:
            return handler(ctx, fr, f, args, kwargs)
        if I_.interpretable(ctx, f.__func__):
            return call_function(ctx, fr, f.__func__, [lift_object(ctx, selfv)] + list(args), kwargs,
                                 owner=owner_of(type(selfv), f.__func__))
    if isinstance(f, types.FunctionType):
        if f not in ctx.stubs and pure_string_function(f):
            flat = list(args) + list(kwargs.values())
            # symbolic flags (is_case, is_re) take part in the tabulation as two-valued atoms
            flat = [SAtom(ITE(a.t, ATOMS.intern(True), ATOMS.intern(False)), (ATOMS.intern(True), ATOMS.intern(False)))
                    if isinstance(a, SBool) else a for a in flat]
            if any(isinstance(a, SAtom) for a in flat) and all(
                    isinstance(a, SAtom) or not o.is_symbolic_value(a) for a in flat):
                # pure function of label strings: the REAL function is evaluated on every candidate
                ctx.funcs_seen.add(f)
                keys = list(kwargs)
                r, exc = lift(lambda *xs: f(*xs[:len(args)], **dict(zip(keys, xs[len(args):]))), *flat)
                raise_if(ctx, fr, exc, "Other")
                return r
        if f in ctx.stubs or I_.interpretable(ctx, f):
            return call_function(ctx, fr, f, args, kwargs)
    if isinstance(f, type):
        return construct(ctx, fr, f, args, kwargs)
    h = BUILTINS.get(f)
    if h is not None:
        return h(ctx, fr, args, kwargs)
    if not any(o.is_symbolic_value(a) for a in args) and not any(
            o.is_symbolic_value(a) for a in kwargs.values()):
        try:
            return f(*args, **kwargs)
        except Exception as e:
            raise_if(ctx, fr, True, type(e).__name__)
            return None
    if callable(f) and not isinstance(f, (types.FunctionType,)) or (
            isinstance(f, types.FunctionType) and not I_.interpretable(ctx, f)):
        # library function on label strings: lifted by tabulation (exact: the real function is
        # evaluated on every candidate string)
        flat = list(args) + list(kwargs.values())
        if all(isinstance(a, SAtom) or not o.is_symbolic_value(a) for a in flat):
            keys = list(kwargs)
            r, exc = lift(lambda *xs: f(*xs[:len(args)], **dict(zip(keys, xs[len(args):]))), *flat)
            raise_if(ctx, fr, exc, "Other")
            return r
    raise Unsupported("call of %r with symbolic arguments" % (f,))


PURE_STRING_FUNCS = {("spydrnet.util.patterns", "_is_pattern_absolute"),
                     ("spydrnet.util.patterns", "_value_matches_pattern")}


def pure_string_function(f):
    return (getattr(f, "__module__", None), getattr(f, "__name__", None)) in PURE_STRING_FUNCS


def owner_of(cls, fn):
    for k in cls.__mro__:
        for v in k.__dict__.values():
            if v is fn:
                return k
    return cls


_LIFTED = {}


def lift_object(ctx, obj):
    """real python object -> Local record (fields from __dict__), one Local per object"""
    key = id(obj)
    tab = ctx.__dict__.setdefault("_lifted", {})
    if key not in tab:
        loc = Local(type(obj), {})
        tab[key] = (obj, loc)
        conv = ctx.__dict__.get("lift_field", None)
        for k, v in getattr(obj, "__dict__", {}).items():
            loc.f[k] = conv(obj, k, v) if conv else v
    return tab[key][1]


def call_refmethod(ctx, fr, m, args, kwargs):
    u = ctx.u
    ref = m.ref
    all_cs = [c for _, _, cs in m.impls for c in cs]
    raise_if(ctx, fr, NOT(u.isin_any(ref.t, all_cs)), "AttributeError")
    res, first = None, True
    g0 = fr.g
    for fn, owner, cs in m.impls:
        cond = u.isin_any(ref.t, cs)
        fr.g = AND(g0, cond)
        if live(ctx, fr) is False:
            continue
        if isinstance(fn, (staticmethod,)):
            v = call(ctx, fr, fn.__func__, args, kwargs)
        elif isinstance(fn, types.FunctionType):
            v = call_function(ctx, fr, fn, [Ref(ref.t, cs)] + list(args), kwargs, owner=owner)
        elif fn is object.__init__:
            v = None
        else:
            raise Unsupported("method object %r" % (fn,))
        if first:
            res, first = v, False
        else:
            res = merge(cond, v, res)
    fr.g = g0
    return res


def construct(ctx, fr, cls, args, kwargs):
    o = ops()
    name = ctx.name_of_cls(cls)
    if name is not None and not (cls in (list, dict, set)):
        g = live(ctx, fr)
        ref, over = ctx.h.alloc(g, name)
        bound_if(ctx, fr, over, "allocation bound for %s exceeded" % name)
        # exact-class tag (base vs public extended class)
        is_ext = cls is ctx.real[name]
        if not is_ext:
            for i in range(ctx.u.n[name]):
                hit = AND(g, EQ(ref.t, ctx.u.gid(name, i)))
                if hit is not False:
                    ctx.h.exact[name][i] = ITE(hit, False, ctx.h.exact[name][i])
        init, owner = I_.mro_lookup(cls, "__init__")
        if isinstance(init, types.FunctionType):
            call_function(ctx, fr, init, [ref] + list(args), kwargs, owner=owner)
        return ref
    if cls is list:
        if not args:
            return SList(0, [None] * 0)
        return compact(o.as_slist(ctx, fr, args[0])).copy()
    if cls is tuple:
        v = args[0] if args else ()
        if isinstance(v, (tuple, list)):
            return tuple(v)
        return compact(o.as_slist(ctx, fr, v)).copy()
    if cls is set or cls is frozenset:
        if not args:
            s = SList(0, [])
            s.is_set = True
            return s
        return o.make_set(ctx, fr, args[0])
    if cls in (dict, collections.OrderedDict, weakref.WeakKeyDictionary, weakref.WeakValueDictionary):
        if args:
            src = args[0]
            if isinstance(src, o.SDict):
                return src.copy()
            if isinstance(src, dict):
                return o.make_dict(ctx, fr, list(src.items()))
            raise Unsupported("dict(%r)" % (src,))
        d = o.SDict()
        ctx.__dict__.setdefault("created_dicts", []).append(d)
        return d
    if cls is collections.deque:
        if args:
            return compact(o.as_slist(ctx, fr, args[0])).copy()
        return SList(0, [])
    if cls is str:
        return o.to_str(ctx, fr, args[0]) if args else ""
    if cls is int:
        v = args[0]
        if isinstance(v, (SAtom, str)):
            r, exc = lift(lambda x: int(x), v)
            raise_if(ctx, fr, exc, "ValueError")
            return r
        return v
    if cls is bool:
        return mkbool(I_.truth_of(ctx, fr, args[0])) if args else False
    if cls is type and len(args) == 1:
        return o.type_of(ctx, fr, args[0])
    if cls is super:
        selfv = I_.lookup_name(ctx, fr, list(I_.fn_ast(fr.fn).args.args)[0].arg)
        return SuperProxy(selfv, fr.owner)
    if cls is zip:
        return h_zip(ctx, fr, args, kwargs)
    if cls is enumerate:
        sl = compact(o.as_slist(ctx, fr, args[0]))
        return SList(sl.len, [(k, sl.el[k]) for k in range(sl.cap)])
    if cls is range:
        return h_range(ctx, fr, args, kwargs)
    if cls is reversed:
        return o.seq_reversed(ctx, fr, o.as_slist(ctx, fr, args[0]))
    if cls is filter:
        sl = o.as_slist(ctx, fr, args[1])
        mask = []
        g0 = fr.g
        for k in range(sl.cap):
            fr.g = AND(g0, present(sl, k))
            keep = False
            if live(ctx, fr) is not False:
                keep = I_.truth_of(ctx, fr, call(ctx, fr, args[0], [sl.el[k]], {})) if args[0] is not None \
                    else I_.truth_of(ctx, fr, sl.el[k])
            mask.append(AND(present(sl, k), keep))
        fr.g = g0
        return SList(sl.len, sl.el, None, False, mask)
    if cls is map:
        raise Unsupported("map")
    mod = getattr(cls, "__module__", "") or ""
    if mod.startswith(ctx.interp_prefixes) or cls in ctx.__dict__.get("local_classes", ()):
        loc = Local(cls, {})
        init, owner = I_.mro_lookup(cls, "__init__")
        if isinstance(init, types.FunctionType):
            call_function(ctx, fr, init, [loc] + list(args), kwargs, owner=owner)
        return loc
    if issubclass(cls, BaseException):
        return Local(cls, {})
    if not any(o.is_symbolic_value(a) for a in args):
        return cls(*args, **kwargs)
    raise Unsupported("construct %r" % (cls,))


# ------------------------------------------------------------------------------------------------
def h_len(ctx, fr, args, kw):
    o = ops()
    v = args[0]
    if isinstance(v, SList):
        return mkint(seq_len(v))
    if isinstance(v, Local):
        f, owner = I_.mro_lookup(v.cls, "__len__")
        return call_function(ctx, fr, f, [v], owner=owner)
    if isinstance(v, HeapSet):
        return mkint(seq_len(o.heapset_iter(ctx, fr, v)))
    if isinstance(v, PinMap):
        return mkint(seq_len(o.pinmap_keys(ctx, fr, v)))
    if isinstance(v, HeapData):
        return mkint(seq_len(o.data_keys(ctx, fr, v)))
    if isinstance(v, o.SDict):
        return mkint(seq_len(o.sdict_keys(ctx, fr, v)))
    if isinstance(v, SAtom):
        r, exc = lift(lambda x: len(x), v)
        raise_if(ctx, fr, exc, "TypeError")
        return r
    if isinstance(v, Ref):
        m = I_.get_attr(ctx, fr, v, "__len__")
        return call(ctx, fr, m, [], {})
    if v is None:
        raise_if(ctx, fr, True, "TypeError")
        return 0
    return len(v)


def h_isinstance(ctx, fr, args, kw):
    o = ops()
    obj, cls = args
    classes = cls if isinstance(cls, tuple) else (cls,)
    from vf.e1 import hier as _H
    if _H.is_hpath_value(obj):
        from spydrnet.util.hierarchical_reference import HRef as _HRef
        is_h = any(k is _HRef for k in classes)
        if isinstance(obj, _H.HPath):
            return is_h
        r, _ = lift(lambda x: (is_h if isinstance(x, _H.HPath) else isinstance(x, classes)), obj)
        return r
    if isinstance(obj, Ref):
        r = False
        for c in sorted(obj.cands):
            for k in classes:
                if isinstance(k, type) and issubclass(ctx.real[c], k):
                    cond = ctx.u.isin(obj.t, c)
                    if k is ctx.real[c] and any(x is not True for x in ctx.h.exact[c]):
                        ex = False
                        for i in range(ctx.u.n[c]):
                            ex = OR(ex, AND(EQ(obj.t, ctx.u.gid(c, i)), ctx.h.exact[c][i]))
                        cond = AND(cond, ex)
                    r = OR(r, cond)
                    break
        return mkbool(r)
    if obj is None:
        return any(k is type(None) for k in classes)
    if isinstance(obj, Local):
        return any(isinstance(k, type) and issubclass(obj.cls, k) for k in classes)
    if isinstance(obj, SList):
        want = (set, frozenset) if obj.is_set else (list,)
        return any(k in want for k in classes)
    if isinstance(obj, (o.SDict, HeapData, PinMap)):
        return any(k in (dict, collections.OrderedDict) for k in classes)
    if isinstance(obj, HeapSet):
        return any(k in (set,) for k in classes)
    if isinstance(obj, SInt):
        return any(k is int for k in classes)
    if isinstance(obj, SBool):
        return any(k in (int, bool) for k in classes)
    if isinstance(obj, SOpt):
        inner = h_isinstance(ctx, fr, [obj.val, cls], kw)
        return mkbool(AND(NOT(obj.isnone), raw_bool(inner)))
    if isinstance(obj, SAtom):
        r, _ = lift(lambda x: isinstance(x, classes), obj)
        return r
    return isinstance(obj, classes)


def h_range(ctx, fr, args, kw):
    vals = [raw_int(a) for a in args]
    if all(not is_sym(v) for v in vals):
        return list(range(*vals))
    if len(vals) == 1:
        lo, hi = 0, vals[0]
    elif len(vals) == 2:
        lo, hi = vals
    else:
        raise Unsupported("range with symbolic step")
    n = MAX(SUB(hi, lo), 0)
    cap = ctx.__dict__.get("range_cap", ctx.u.K)
    bound_if(ctx, fr, GT(n, cap), "range() longer than %d" % cap)
    return SList(n, [mkint(ADD(lo, k)) for k in range(cap)])


def h_zip(ctx, fr, args, kw):
    o = ops()
    if all(isinstance(a, (list, tuple)) for a in args):
        return [tuple(x) for x in zip(*args)]
    seqs = [compact(o.as_slist(ctx, fr, a)) for a in args]
    cap = min(s.cap for s in seqs)
    n = seqs[0].len
    for s in seqs[1:]:
        n = MIN(n, s.len)
    return SList(n, [tuple(s.el[k] for s in seqs) for k in range(cap)])


def h_all(ctx, fr, args, kw):
    o = ops()
    sl = o.as_slist(ctx, fr, args[0])
    return mkbool(AND(*[OR(NOT(present(sl, k)), I_.truth_of(ctx, fr, sl.el[k])) for k in range(sl.cap)]))


def h_any(ctx, fr, args, kw):
    o = ops()
    sl = o.as_slist(ctx, fr, args[0])
    return mkbool(OR(*[AND(present(sl, k), I_.truth_of(ctx, fr, sl.el[k])) for k in range(sl.cap)]))


def h_sum(ctx, fr, args, kw):
    o = ops()
    sl = o.as_slist(ctx, fr, args[0])
    t = raw_int(args[1]) if len(args) > 1 else 0
    for k in range(sl.cap):
        t = ADD(t, ITE(present(sl, k), raw_int(sl.el[k]), 0))
    return mkint(t)


def h_minmax(is_min):
    def f(ctx, fr, args, kw):
        o = ops()
        vals = args
        if len(args) == 1:
            sl = compact(o.as_slist(ctx, fr, args[0]))
            raise_if(ctx, fr, EQ(sl.len, 0), "ValueError")
            res = raw_int(sl.el[0]) if sl.cap else 0
            for k in range(1, sl.cap):
                x = raw_int(sl.el[k])
                better = LT(x, res) if is_min else GT(x, res)
                res = ITE(AND(LT(k, sl.len), better), x, res)
            return mkint(res)
        res = raw_int(vals[0])
        for v in vals[1:]:
            res = MIN(res, raw_int(v)) if is_min else MAX(res, raw_int(v))
        return mkint(res)
    return f


def h_iter(ctx, fr, args, kw):
    o = ops()
    return PyIter(compact(o.as_slist(ctx, fr, args[0])))


def h_next(ctx, fr, args, kw):
    o = ops()
    it = args[0]
    from vf.e1.vals import SGen
    if isinstance(it, SGen):
        # next() on a generator object: keep one iterator per generator
        if not hasattr(it, "_iter"):
            it._iter = PyIter(compact(it.sl))
        it = it._iter
    if isinstance(it, SList):
        it = PyIter(compact(it))
    if not isinstance(it, PyIter):
        raise Unsupported("next() on %r" % (it,))
    sl = it.sl
    has = GT(sl.len, it.pos)
    if len(args) > 1:
        v = merge(has, o.seq_get_guarded(ctx, fr, sl, it.pos), args[1]) if sl.cap else args[1]
    else:
        raise_if(ctx, fr, NOT(has), "StopIteration")
        v = o.seq_get_guarded(ctx, fr, sl, it.pos) if sl.cap else None
    it.pos = it.pos + 1
    return v


def h_hash(ctx, fr, args, kw):
    v = args[0]
    if isinstance(v, Ref):
        return mkint(v.t)       # any injective function of identity is a valid hash model
    if isinstance(v, tuple):
        t = 0
        for x in v:
            t = ADD(MUL(t, 1000003), raw_int(h_hash(ctx, fr, [x], {})))
        return mkint(t)
    if v is None:
        return -1
    if isinstance(v, SAtom):
        return mkint(v.t)
    if isinstance(v, (SInt, int)):
        return v
    if isinstance(v, Local):
        f, owner = I_.mro_lookup(v.cls, "__hash__")
        if isinstance(f, types.FunctionType):
            return call_function(ctx, fr, f, [v], owner=owner)
        return id(v)
    return hash(v)


def h_copy(ctx, fr, args, kw):
    o = ops()
    v = args[0]
    if isinstance(v, SList):
        return compact(v).copy() if not v.is_set else v.copy()
    if isinstance(v, HeapSet):
        return o.heapset_iter(ctx, fr, v)
    if isinstance(v, HeapData):
        return snapshot_data(ctx, fr, v)
    if isinstance(v, o.SDict):
        return v.copy()
    if isinstance(v, (Ref, Local)):
        raise Unsupported("copy of object")
    return _copy.copy(v)


def snapshot_data(ctx, fr, hd):
    o = ops()
    d = o.SDict()
    for k in ctx.u.keys:
        pr = o.data_has(ctx, fr, hd, k)
        if pr is False:
            continue
        tok = ("a", ATOMS.intern(k))
        d.e[tok] = [pr, o.data_get(ctx, fr, hd, k)]
        d.order.append(tok)
    return d


def h_deepcopy(ctx, fr, args, kw):
    v = args[0]
    if isinstance(v, (bool, int, str, SBool, SInt, SAtom, type(None))):
        return v
    import enum
    if isinstance(v, enum.Enum):
        return v
    return h_copy(ctx, fr, args, kw)


def h_getattr(ctx, fr, args, kw):
    obj, name = args[0], args[1]
    if not isinstance(name, str):
        raise Unsupported("getattr with symbolic name")
    if len(args) > 2:
        if isinstance(obj, Ref):
            has = any(I_.mro_lookup(ctx.real[c], name)[0] is not None for c in obj.cands)
            if not has:
                return args[2]
        elif isinstance(obj, Local):
            if name not in obj.f and I_.mro_lookup(obj.cls, name)[0] is None:
                return args[2]
        elif not hasattr(obj, name):
            return args[2]
    return I_.get_attr(ctx, fr, obj, name)


def h_hasattr(ctx, fr, args, kw):
    obj, name = args
    if isinstance(obj, Ref):
        return all(I_.mro_lookup(ctx.real[c], name)[0] is not None for c in obj.cands)
    if isinstance(obj, Local):
        return name in obj.f or I_.mro_lookup(obj.cls, name)[0] is not None
    return hasattr(obj, name)


def h_print(ctx, fr, args, kw):
    return None


def h_sorted(ctx, fr, args, kw):
    return seq_sorted(ctx, fr, ops().as_slist(ctx, fr, args[0]), kw.get("key"), kw.get("reverse", False))


def seq_sorted(ctx, fr, sl, key, reverse):
    """stable sort of a bounded list by integer keys (python semantics: reverse=True keeps the original order
    of equal keys).  Encoded as a rank computation: new position of element i = number of elements that sort
    strictly before it."""
    from vf.e1.vals import merge, raw_int
    d = compact(sl)
    if not isinstance(reverse, bool):
        raise Unsupported("sort with a symbolic reverse flag")
    keys = []
    g0 = fr.g
    for k in range(d.cap):
        fr.g = AND(g0, LT(k, d.len))
        if live(ctx, fr) is False:
            keys.append(0)
        else:
            kv = call(ctx, fr, key, [d.el[k]], {}) if key is not None else d.el[k]
            if isinstance(kv, SOpt):
                raise_if(ctx, fr, kv.isnone, "TypeError")      # None is not orderable
                kv = kv.val
            if isinstance(kv, bool) or not isinstance(kv, (int, SInt)):
                fr.g = g0
                raise Unsupported("sort key of type %s" % type(kv).__name__)
            keys.append(raw_int(kv))
        fr.g = g0
    rank = []
    for i in range(d.cap):
        r = 0
        for j in range(d.cap):
            if i == j:
                continue
            first = (GT(keys[j], keys[i]) if reverse else LT(keys[j], keys[i]))
            if j < i:
                first = OR(first, EQ(keys[j], keys[i]))
            r = ADD(r, ITE(AND(LT(j, d.len), first), 1, 0))
        rank.append(r)
    el = []
    for pos in range(d.cap):
        v = None
        for i in reversed(range(d.cap)):
            cond = AND(LT(i, d.len), EQ(rank[i], pos))
            if cond is False:
                continue
            v = d.el[i] if v is None else merge(cond, d.el[i], v)
        el.append(v if v is not None else d.el[pos])
    return SList(d.len, el)


def h_id(ctx, fr, args, kw):
    v = args[0]
    if isinstance(v, Ref):
        return mkint(v.t)
    return id(v)


def h_issubclass(ctx, fr, args, kw):
    a, b = args
    if isinstance(a, SAtom):
        r, _ = lift(lambda x: issubclass(x, b), a)
        return r
    return issubclass(a, b)


def h_abs(ctx, fr, args, kw):
    v = args[0]
    if isinstance(v, (SInt, SOpt)):
        t = raw_int(v)
        return mkint(ITE(LT(t, 0), SUB(0, t), t))
    return abs(v)


def h_str(ctx, fr, args, kw):
    return ops().to_str(ctx, fr, args[0])


BUILTINS = {
    len: h_len, isinstance: h_isinstance, all: h_all, any: h_any, sum: h_sum,
    min: h_minmax(True), max: h_minmax(False), iter: h_iter, next: h_next, hash: h_hash,
    _copy.copy: h_copy, _copy.deepcopy: h_deepcopy, sys.intern: lambda c, f, a, k: a[0],
    getattr: h_getattr, hasattr: h_hasattr, print: h_print, sorted: h_sorted, id: h_id,
    issubclass: h_issubclass, abs: h_abs,
}


# ------------------------------------------------------------------------------------------------
def sym_method(ctx, fr, obj, name, args, kw):
    o = ops()
    from vf.e1 import nsmodel as NS
    if isinstance(obj, (NS.NSManagerDict, NS.NSTypeDict, NS.NSNameDict)):
        if name == "__contains__":
            return mkbool(o.contains(ctx, fr, obj, args[0]))
        if name == "__getitem__":
            return o.getitem(ctx, fr, obj, args[0])
        if name == "__setitem__":
            return o.setitem(ctx, fr, obj, args[0], args[1])
        if name == "__delitem__":
            return o.delitem(ctx, fr, obj, args[0])
        if name == "get" and isinstance(obj, NS.NSNameDict):
            has = NS.name_has(ctx, obj, args[0])
            return merge(has, NS.name_get(ctx, obj, args[0]), args[1] if len(args) > 1 else None)
        raise Unsupported("namespace dict method %s" % name)
    if isinstance(obj, SList):
        return slist_method(ctx, fr, obj, name, args, kw)
    if isinstance(obj, HeapSet):
        if name == "add":
            return o.heapset_update(ctx, fr, obj, args[0], True)
        if name == "remove":
            return o.heapset_update(ctx, fr, obj, args[0], False, must_exist=True)
        if name == "discard":
            return o.heapset_update(ctx, fr, obj, args[0], False)
        if name in ("__contains__",):
            return mkbool(o.heapset_has(ctx, fr, obj, args[0]))
        if name in ("__iter__", "copy"):
            return o.heapset_iter(ctx, fr, obj)
        if name == "__len__":
            return mkint(seq_len(o.heapset_iter(ctx, fr, obj)))
        if name in ("__eq__", "__ne__"):
            r = o.obj_eq(ctx, fr, o.heapset_iter(ctx, fr, obj), o.as_slist(ctx, fr, args[0]))
            return mkbool(r if name == "__eq__" else NOT(r))
        return slist_method(ctx, fr, o.heapset_iter(ctx, fr, obj), name, args, kw)
    if isinstance(obj, PinMap):
        if name == "__contains__":
            return mkbool(o.pinmap_has(ctx, fr, obj, args[0]))
        if name == "__getitem__":
            return o.getitem(ctx, fr, obj, args[0])
        if name == "__setitem__":
            return o.pinmap_set(ctx, fr, obj, args[0], args[1])
        if name == "pop":
            if len(args) > 1:
                has = o.pinmap_has(ctx, fr, obj, args[0])
                v = o.pinmap_get(ctx, fr, obj, args[0])
                g0 = fr.g
                fr.g = AND(g0, has)
                o.pinmap_set(ctx, fr, obj, args[0], None)
                fr.g = g0
                return merge(has, v, args[1])
            return o.pinmap_del(ctx, fr, obj, args[0])
        if name == "__delitem__":
            o.pinmap_del(ctx, fr, obj, args[0])
            return None
        if name == "get":
            has = o.pinmap_has(ctx, fr, obj, args[0])
            return merge(has, o.pinmap_get(ctx, fr, obj, args[0]), args[1] if len(args) > 1 else None)
        if name == "clear":
            g = live(ctx, fr)
            for i, ci in o._each_inst(ctx, obj.iref):
                for p in range(ctx.u.n["InnerPin"]):
                    ctx.h.pinmap[i][p] = ITE(AND(g, ci), NONE_ID, ctx.h.pinmap[i][p])
            return None
        if name in ("keys", "__iter__"):
            return o.pinmap_keys(ctx, fr, obj)
        if name == "values":
            return o.pinmap_keys(ctx, fr, obj, values=True)
        if name == "items":
            return o.pinmap_keys(ctx, fr, obj, items=True)
        if name == "__len__":
            return mkint(seq_len(o.pinmap_keys(ctx, fr, obj)))
        if name == "copy":
            raise Unsupported("copy of Instance._pins")
        raise Unsupported("Instance._pins.%s" % name)
    if isinstance(obj, HeapData):
        if name == "__contains__":
            return mkbool(o.data_has(ctx, fr, obj, args[0]))
        if name == "__getitem__":
            return o.getitem(ctx, fr, obj, args[0])
        if name == "__setitem__":
            return o.data_set(ctx, fr, obj, args[0], args[1])
        if name == "__delitem__":
            return o.delitem(ctx, fr, obj, args[0])
        if name == "get":
            d = args[1] if len(args) > 1 else kw.get("default", None)
            has = o.data_has(ctx, fr, obj, args[0])
            return merge(has, o.data_get(ctx, fr, obj, args[0]), d)
        if name == "pop":
            has = o.data_has(ctx, fr, obj, args[0])
            if len(args) > 1:
                v = merge(has, o.data_get(ctx, fr, obj, args[0]), args[1])
                g0 = fr.g
                fr.g = AND(g0, has)
                o.data_set(ctx, fr, obj, args[0], None, present_flag=False)
                fr.g = g0
                return v
            raise_if(ctx, fr, NOT(has), "KeyError")
            v = o.data_get(ctx, fr, obj, args[0])
            o.data_set(ctx, fr, obj, args[0], None, present_flag=False)
            return v
        if name in ("__iter__", "keys"):
            return o.data_keys(ctx, fr, obj)
        if name == "__len__":
            return mkint(seq_len(o.data_keys(ctx, fr, obj)))
        if name in ("copy",):
            return snapshot_data(ctx, fr, obj)
        if name == "items":
            ks = o.data_keys(ctx, fr, obj)
            return SList(ks.len, [(k, o.data_get(ctx, fr, obj, k)) for k in ks.el], None, False, ks.mask)
        if name == "values":
            ks = o.data_keys(ctx, fr, obj)
            return SList(ks.len, [o.data_get(ctx, fr, obj, k) for k in ks.el], None, False, ks.mask)
        if name in ("__eq__", "__ne__"):
            other = args[0]
            r = True
            for k in ctx.u.keys:
                ha = o.data_has(ctx, fr, obj, k)
                hb = o.contains(ctx, fr, other, k)
                same = o.obj_eq(ctx, fr, o.data_get(ctx, fr, obj, k),
                                o.getitem_noexc(ctx, fr, other, k))
                r = AND(r, EQ(ha, hb), OR(NOT(ha), same))
            return mkbool(r if name == "__eq__" else NOT(r))
        raise Unsupported("_data.%s" % name)
    if isinstance(obj, o.SDict):
        return sdict_method(ctx, fr, obj, name, args, kw)
    if isinstance(obj, (str, SAtom)) and ctx.__dict__.get("text_ropes") and name in ("join", "format"):
        from vf.e1.vals import SText
        if name == "join" and isinstance(args[0], (list, tuple)) and any(
                isinstance(x, (SAtom, SText)) for x in args[0]) and isinstance(obj, str):
            out = ""
            for i, x in enumerate(args[0]):
                out = SText.cat(SText.cat(out, obj if i else ""), x)
            return out
        if name == "format" and isinstance(obj, str) and obj.count("{}") == len(args) and "{" not in obj.replace("{}", "") \
                and any(isinstance(a, (SAtom, SText, SInt)) for a in args):
            pieces = obj.split("{}")
            out = pieces[0]
            for a, rest in zip(args, pieces[1:]):
                out = SText.cat(SText.cat(out, o.to_str(ctx, fr, a)), rest)
            return out
    if isinstance(obj, (str, SAtom)):
        if name == "join":
            sl = args[0]
            if isinstance(sl, (list, tuple)):
                r, exc = lift(lambda s, *xs: s.join(xs), obj, *sl)
                raise_if(ctx, fr, exc, "TypeError")
                return r
            sl = compact(o.as_slist(ctx, fr, sl))
            if is_sym(sl.len):
                res = None
                for n in range(sl.cap + 1):
                    r, exc = lift(lambda s, *xs: s.join(xs), obj, *sl.el[:n])
                    res = r if res is None else merge(EQ(sl.len, n), r, res)
                return res
            r, exc = lift(lambda s, *xs: s.join(xs), obj, *sl.el[:sl.len])
            raise_if(ctx, fr, exc, "TypeError")
            return r
        if name == "format":
            r, exc = lift(lambda s, *xs: s.format(*xs), obj, *[o.to_str(ctx, fr, a) for a in args])
            return r
        if any(isinstance(a, (SInt, SOpt, SList, Ref, Local)) for a in args):
            raise Unsupported("str.%s with symbolic non-atom args" % name)
        r, exc = lift(lambda s, *xs: getattr(s, name)(*xs), obj, *args)
        raise_if(ctx, fr, exc, "TypeError")
        if isinstance(r, (list,)):
            return r
        return r
    if isinstance(obj, PyIter):
        if name == "__next__":
            return h_next(ctx, fr, [obj], {})
    if isinstance(obj, (tuple, list, dict, set, frozenset)):
        if any(o.is_symbolic_value(a) for a in args):
            if isinstance(obj, (list, tuple)):
                return slist_method(ctx, fr, from_pylist(list(obj)), name, args, kw)
            if isinstance(obj, dict) and name == "get":
                has = o.contains(ctx, fr, obj, args[0])
                d = args[1] if len(args) > 1 else None
                if has is False:
                    return d
                g0 = fr.g
                fr.g = AND(g0, has)
                v = o.getitem(ctx, fr, obj, args[0])
                fr.g = g0
                return merge(has, v, d)
            raise Unsupported("%s.%s with symbolic args" % (type(obj).__name__, name))
        if isinstance(obj, (list, dict, set)) and name in (
                "append", "add", "update", "pop", "remove", "clear", "extend", "insert", "setdefault",
                "__setitem__", "__delitem__", "discard", "popitem", "sort", "reverse") and \
                live(ctx, fr) is not True:
            raise Unsupported("guarded mutation of a python %s (%s)" % (type(obj).__name__, name))
        try:
            return getattr(obj, name)(*args, **kw)
        except Exception as e:
            raise_if(ctx, fr, True, type(e).__name__)
            return None
    raise Unsupported("method %s on %r" % (name, obj))


def sdict_method(ctx, fr, d, name, args, kw):
    o = ops()
    if name == "__contains__":
        return mkbool(o.sdict_has(ctx, fr, d, args[0]))
    if name == "__getitem__":
        return o.getitem(ctx, fr, d, args[0])
    if name == "__setitem__":
        return o.sdict_set(ctx, fr, d, args[0], args[1])
    if name == "__delitem__":
        return o.sdict_del(ctx, fr, d, args[0])
    if name == "get":
        dflt = args[1] if len(args) > 1 else kw.get("default", None)
        return o.sdict_get_raw(ctx, fr, d, args[0], dflt) if True else None
    if name == "pop":
        has = o.sdict_has(ctx, fr, d, args[0])
        if len(args) > 1:
            v = o.sdict_get_raw(ctx, fr, d, args[0], args[1])
            o.sdict_del(ctx, fr, d, args[0], must=False)
            return v
        raise_if(ctx, fr, NOT(has), "KeyError")
        v = o.sdict_get_raw(ctx, fr, d, args[0], None)
        o.sdict_del(ctx, fr, d, args[0], must=False)
        return v
    if name in ("keys", "__iter__"):
        return o.sdict_keys(ctx, fr, d)
    if name == "values":
        return o.sdict_keys(ctx, fr, d, values=True)
    if name == "items":
        return o.sdict_keys(ctx, fr, d, items=True)
    if name == "__len__":
        return mkint(seq_len(o.sdict_keys(ctx, fr, d)))
    if name == "clear":
        g = live(ctx, fr)
        for t in d.e:
            d.e[t][0] = AND(d.e[t][0], NOT(g))
        return None
    if name == "copy":
        return d.copy()
    if name == "setdefault":
        has = o.sdict_has(ctx, fr, d, args[0])
        g0 = fr.g
        fr.g = AND(g0, NOT(has))
        o.sdict_set(ctx, fr, d, args[0], args[1] if len(args) > 1 else None)
        fr.g = g0
        return o.sdict_get_raw(ctx, fr, d, args[0], None)
    raise Unsupported("dict.%s" % name)


def slist_method(ctx, fr, sl, name, args, kw):
    o = ops()
    if name == "append" or (name == "add" and sl.is_set):
        if sl.is_set:
            has = o.contains(ctx, fr, sl, args[0])
            g0 = fr.g
            fr.g = AND(g0, NOT(has))
            d = compact(sl)
            o.seq_insert(ctx, fr, sl, d.len, args[0])
            sl.is_set = True
            fr.g = g0
            return None
        o.seq_insert(ctx, fr, sl, compact(sl).len, args[0])
        return None
    if name == "appendleft":
        o.seq_insert(ctx, fr, sl, 0, args[0])
        return None
    if name == "insert":
        o.seq_insert(ctx, fr, sl, args[0], args[1])
        return None
    if name in ("remove", "discard"):
        found, first, d = o.seq_first_index(ctx, fr, sl, args[0])
        if name == "remove":
            raise_if(ctx, fr, NOT(found), "KeyError" if sl.is_set else "ValueError")
            o.seq_remove_at(ctx, fr, sl, first)
        else:
            g0 = fr.g
            fr.g = AND(g0, found)
            o.seq_remove_at(ctx, fr, sl, first)
            fr.g = g0
        return None
    if name in ("pop", "popleft"):
        d = compact(sl)
        raise_if(ctx, fr, EQ(d.len, 0), "IndexError")
        if name == "popleft":
            idx = 0
        elif args:
            idx = o.seq_index_norm(ctx, fr, d, args[0])
        else:
            idx = SUB(d.len, 1)
        v = o.seq_get_guarded(ctx, fr, d, idx)
        o.seq_remove_at(ctx, fr, sl, idx)
        return v
    if name == "index":
        found, first, d = o.seq_first_index(ctx, fr, sl, args[0])
        raise_if(ctx, fr, NOT(found), "ValueError")
        return mkint(first)
    if name == "count":
        n = 0
        for k in range(sl.cap):
            n = ADD(n, ITE(AND(present(sl, k), o.obj_eq(ctx, fr, sl.el[k], args[0])), 1, 0))
        return mkint(n)
    if name == "__contains__":
        return mkbool(o.contains(ctx, fr, sl, args[0]))
    if name == "copy":
        return compact(sl).copy() if not sl.is_set else sl.copy()
    if name in ("__iter__",):
        return sl
    if name == "__len__":
        return mkint(seq_len(sl))
    if name == "__getitem__":
        return o.getitem(ctx, fr, sl, args[0])
    if name == "__add__":
        return o.seq_concat(ctx, fr, sl, o.as_slist(ctx, fr, args[0]))
    if name == "__eq__":
        return mkbool(o.obj_eq(ctx, fr, sl, args[0]))
    if name == "__ne__":
        return mkbool(NOT(o.obj_eq(ctx, fr, sl, args[0])))
    if name == "extend" or name == "update":
        if sl.is_set:
            other = o.as_slist(ctx, fr, args[0])
            for k in range(other.cap):
                g0 = fr.g
                fr.g = AND(g0, present(other, k))
                if live(ctx, fr) is not False:
                    slist_method(ctx, fr, sl, "add", [other.el[k]], {})
                fr.g = g0
            return None
        o.seq_extend(ctx, fr, sl, o.as_slist(ctx, fr, args[0]))
        return None
    if name == "clear":
        o.commit(ctx, fr, sl, SList(0, sl.el))
        return None
    if name == "reverse":
        o.commit(ctx, fr, sl, o.seq_reversed(ctx, fr, sl))
        return None
    if name == "sort" and not sl.is_set:
        o.commit(ctx, fr, sl, seq_sorted(ctx, fr, sl, kw.get("key"), kw.get("reverse", False)))
        return None
    if name == "__reversed__":
        return o.seq_reversed(ctx, fr, sl)
    if name in ("__ge__", "__le__", "__gt__", "__lt__", "issubset", "issuperset", "isdisjoint"):
        other = o.as_slist(ctx, fr, args[0])
        if name in ("__le__", "issubset"):
            return mkbool(o.subset(ctx, fr, sl, other))
        if name in ("__ge__", "issuperset"):
            return mkbool(o.subset(ctx, fr, other, sl))
        if name == "isdisjoint":
            return mkbool(AND(*[OR(NOT(present(sl, k)), NOT(o.contains(ctx, fr, other, sl.el[k])))
                                for k in range(sl.cap)]))
        raise Unsupported("set ordering %s" % name)
    if name in ("union", "__or__"):
        return o.make_set(ctx, fr, o.seq_concat(ctx, fr, sl, o.as_slist(ctx, fr, args[0])))
    if name in ("difference", "__sub__"):
        b = o.as_slist(ctx, fr, args[0])
        return SList(sl.len, sl.el, None, True,
                     [AND(present(sl, k), NOT(o.contains(ctx, fr, b, sl.el[k]))) for k in range(sl.cap)])
    if name in ("intersection", "__and__"):
        b = o.as_slist(ctx, fr, args[0])
        return SList(sl.len, sl.el, None, True,
                     [AND(present(sl, k), o.contains(ctx, fr, b, sl.el[k])) for k in range(sl.cap)])
    if name == "__hash__":
        raise_if(ctx, fr, True, "TypeError")
        return 0
    raise Unsupported("list.%s" % name)
