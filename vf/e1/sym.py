"""Symbolic value domain of engine E1.

Booleans and integers are either plain Python values (concrete) or z3 terms; every helper
folds constants so that a fully concrete execution stays concrete (this is what makes the
differential translator validation possible: the same interpreter degenerates to a concrete
one).  References to IR objects are z3 Ints (global slot ids, -1 = None) with a static
candidate-class set.  Label strings are *atoms*: an index into a concrete table, with pure
operations lifted by tabulation.
"""
import z3

NONE_ID = -1


class Unsupported(Exception):
    """The interpreter met a construct it cannot encode: the obligation is inconclusive."""


class BoundExceeded(Exception):
    pass


# ------------------------------------------------------------------------------------------------
# booleans / ints with constant folding
def is_sym(x):
    return isinstance(x, z3.ExprRef)


def B(x):
    """to z3 Bool"""
    if isinstance(x, bool):
        return z3.BoolVal(x)
    return x


def I(x):
    if isinstance(x, bool):
        return z3.IntVal(1 if x else 0)
    if isinstance(x, int):
        return z3.IntVal(x)
    return x


def _fold(t):
    if z3.is_true(t):
        return True
    if z3.is_false(t):
        return False
    if z3.is_int_value(t):
        return t.as_long()
    return t


def AND(*xs):
    out = []
    for x in xs:
        if x is True:
            continue
        if x is False:
            return False
        out.append(x)
    if not out:
        return True
    if len(out) == 1:
        return out[0]
    return z3.And(*out)


def OR(*xs):
    out = []
    for x in xs:
        if x is False:
            continue
        if x is True:
            return True
        out.append(x)
    if not out:
        return False
    if len(out) == 1:
        return out[0]
    return z3.Or(*out)


def NOT(x):
    if isinstance(x, bool):
        return not x
    if z3.is_not(x):
        return x.arg(0)
    return z3.Not(x)


def IMPLIES(a, b):
    return OR(NOT(a), b)


import os as _os
_ASSUME_ON = _os.environ.get('VF_NO_ASSUME') != '1'


def ITE(c, a, b):
    """if-then-else over raw scalars (bool/int python or z3)"""
    if c is True:
        return a
    if c is False:
        return b
    if a is b:
        return a
    if not is_sym(a) and not is_sym(b) and type(a) is type(b) and a == b:
        return a
    if isinstance(a, bool) or isinstance(b, bool) or (is_sym(a) and z3.is_bool(a)) or (
            is_sym(b) and z3.is_bool(b)):
        if a is True and b is False:
            return c
        if a is False and b is True:
            return NOT(c)
        return z3.If(c, B(a), B(b))
    if _ASSUME_ON and is_sym(c) and (is_sym(a) or is_sym(b)):
        # counters updated under one guard (x += 1 ... x -= 1 inside `if g:`) would otherwise pile up as
        # If(g, If(g, x+1, x)-1, If(g, x+1, x)): specialise both arms on the guard first (bounded depth)
        a2, b2 = _assume(a, c, True, 2), _assume(b, c, False, 2)
        if a2 is not a or b2 is not b:
            a2 = _simp(a2)
            b2 = _simp(b2)
            if (not is_sym(a2) and not is_sym(b2) and a2 == b2) or (is_sym(a2) and is_sym(b2) and a2.eq(b2)):
                return a2
            a, b = a2, b2
    return z3.If(c, I(a), I(b))


def _simp(x):
    if not is_sym(x):
        return x
    r = z3.simplify(x)
    if z3.is_int_value(r):
        return r.as_long()
    return r


def _assume(e, c, val, depth):
    """e with every sub-term If(c, x, y) (same condition object) replaced by x (val) / y (not val); integer terms only"""
    if not is_sym(e) or depth == 0:
        return e
    if z3.is_app(e):
        if z3.is_app_of(e, z3.Z3_OP_ITE) and e.arg(0).eq(c):
            return _assume(e.arg(1) if val else e.arg(2), c, val, depth - 1)
        k = e.decl().kind()
        if k in (z3.Z3_OP_ADD, z3.Z3_OP_SUB):
            kids = [e.arg(i) for i in range(e.num_args())]
            new = [_assume(x, c, val, depth - 1) for x in kids]
            if any(n is not o for n, o in zip(new, kids)):
                acc = new[0]
                for n in new[1:]:
                    acc = (acc + n) if k == z3.Z3_OP_ADD else (acc - n)
                return acc
    return e


def EQ(a, b):
    if not is_sym(a) and not is_sym(b):
        return a == b
    if is_sym(a) and is_sym(b) and a.eq(b):
        return True
    if isinstance(a, bool) or isinstance(b, bool) or (is_sym(a) and z3.is_bool(a)):
        return B(a) == B(b)
    return I(a) == I(b)


def NE(a, b):
    return NOT(EQ(a, b))


def _arith(op, a, b):
    if not is_sym(a) and not is_sym(b):
        return op(a, b)
    return op(I(a), I(b))


def ADD(a, b):
    if not is_sym(b) and b == 0:
        return a
    if not is_sym(a) and a == 0:
        return b
    return _arith(lambda x, y: x + y, a, b)


def SUB(a, b):
    if not is_sym(b) and b == 0:
        return a
    return _arith(lambda x, y: x - y, a, b)


def MUL(a, b):
    return _arith(lambda x, y: x * y, a, b)


def LT(a, b):
    return _arith(lambda x, y: x < y, a, b)


def LE(a, b):
    return _arith(lambda x, y: x <= y, a, b)


def GT(a, b):
    return LT(b, a)


def GE(a, b):
    return LE(b, a)


def NEG(a):
    return -a if not is_sym(a) else -a


def MIN(a, b):
    return ITE(LE(a, b), a, b)


def MAX(a, b):
    return ITE(GE(a, b), a, b)


def simp(t):
    if is_sym(t):
        return _fold(z3.simplify(t))
    return t


def ite_chain(idx, keys, vals, default):
    """value of vals[j] where idx == keys[j] (keys concrete ints), else default"""
    if not is_sym(idx):
        for k, v in zip(keys, vals):
            if k == idx:
                return v
        return default
    r = default
    for k, v in reversed(list(zip(keys, vals))):
        r = ITE(idx == k, v, r)
    return r


# ------------------------------------------------------------------------------------------------
class Ref:
    """reference to an IR object.  t: python int or z3 Int (global slot id, -1 None)."""
    __slots__ = ("t", "cands")

    def __init__(self, t, cands):
        self.t = t
        self.cands = frozenset(cands)

    def __repr__(self):
        return "Ref(%s,%s)" % (str(self.t)[:40].replace("\n", " "), sorted(self.cands))


class SInt:
    __slots__ = ("t",)

    def __init__(self, t):
        self.t = t

    def __repr__(self):
        return "SInt(%s)" % (str(self.t)[:40].replace("\n", " "),)


class SBool:
    __slots__ = ("t",)

    def __init__(self, t):
        self.t = t

    def __repr__(self):
        return "SBool(%s)" % (str(self.t)[:40].replace("\n", " "),)


def mkbool(t):
    return t if isinstance(t, bool) else SBool(t)


def mkint(t):
    return t if (isinstance(t, int) and not isinstance(t, bool)) else SInt(t)


class Atoms:
    """global table of label constants (mostly strings; None allowed as entry 0)"""

    def __init__(self):
        self.vals = [None]
        self.idx = {("NoneType", None): 0}

    def intern(self, v):
        try:
            hash(v)
            k = (type(v).__name__, v)
        except TypeError:
            k = ("id", id(v))
            self._keep = getattr(self, "_keep", [])
            self._keep.append(v)
        if type(v).__name__ == "Match":     # re.Match: only its truthiness/groups matter
            k = ("Match", v.span(), v.string, v.re.pattern)
        if k not in self.idx:
            self.idx[k] = len(self.vals)
            self.vals.append(v)
        return self.idx[k]


ATOMS = Atoms()


class SAtom:
    """finite-domain value: t = index into ATOMS (python int or z3 Int), dom = candidate indices"""
    __slots__ = ("t", "dom")

    def __init__(self, t, dom):
        self.t = t
        self.dom = tuple(sorted(set(dom)))

    def __repr__(self):
        return "SAtom(%s,%s)" % (str(self.t)[:40].replace("\n", " "), [ATOMS.vals[i] for i in self.dom][:6])


def atom_of(v):
    """wrap a concrete label value (str/None/int/bool/enum) as a concrete SAtom"""
    i = ATOMS.intern(v)
    return SAtom(i, [i])


def atom_concrete(a):
    if isinstance(a, SAtom):
        if not is_sym(a.t):
            return True, ATOMS.vals[a.t]
        if len(a.dom) == 1:
            return True, ATOMS.vals[a.dom[0]]
        return False, None
    return True, a


def tabulate(f, *args):
    """lift a pure python function over atoms/concretes by tabulation.  Returns python value,
    SBool, SInt or SAtom."""
    import itertools
    doms = []
    for a in args:
        if isinstance(a, SAtom):
            c, v = atom_concrete(a)
            doms.append([(None, v)] if c else [(i, ATOMS.vals[i]) for i in a.dom])
        else:
            doms.append([(None, a)])
    rows = []
    for combo in itertools.product(*doms):
        cond = True
        for a, (i, _) in zip(args, combo):
            if i is not None:
                cond = AND(cond, a.t == i)
        try:
            r = ("ok", f(*[v for _, v in combo]))
        except Exception as e:  # the python-level exception becomes part of the value
            r = ("exc", type(e))
        rows.append((cond, r))
    return rows


def lift(f, *args):
    """tabulate and merge results; exceptions returned separately: (value, exc_cond)"""
    rows = tabulate(f, *args)
    exc = OR(*[c for c, r in rows if r[0] == "exc"])
    oks = [(c, r[1]) for c, r in rows if r[0] == "ok"]
    if not oks:
        return None, exc
    kinds = {("bool" if isinstance(v, bool) else "int" if isinstance(v, int) else "atom")
             for _, v in oks}
    if kinds == {"bool"}:
        t = False
        for c, v in reversed(oks):
            t = ITE(c, v, t)
        return mkbool(t), exc
    if kinds == {"int"}:
        t = oks[-1][1]
        for c, v in reversed(oks[:-1]):
            t = ITE(c, v, t)
        return mkint(t), exc
    idxs = [ATOMS.intern(v) for _, v in oks]
    t = idxs[-1]
    for (c, _), i in reversed(list(zip(oks[:-1], idxs[:-1]))):
        t = ITE(c, i, t)
    if not is_sym(t):
        return ATOMS.vals[t], exc
    return SAtom(t, idxs), exc


def unwrap_atom(v):
    """concrete SAtom -> python value"""
    if isinstance(v, SAtom):
        c, x = atom_concrete(v)
        if c:
            return x
    return v
