"""C07: what a clone must look like, stated independently of the implementation.

The correspondence phi (original -> copy) is an existential witness: the implementation's own
`memo` dictionary is *offered* as the witness and every property of phi is then checked by the
solver (domain = exactly the elements inside the root, injective, fresh, position-wise
structure/data/connection correspondence).  A wrong memo cannot make a wrong clone pass: the
checks are on the post-heap.
"""
from vf.e1.sym import (NONE_ID, is_sym, ITE, AND, OR, NOT, EQ, NE, LT, LE, GE, IMPLIES, ite_chain)
from vf.e1.heap import CLASSES, SCALARS, LISTS, OWNERSHIP, FCE
from vf.e1 import spec

PARENT = {C: (P, back) for (P, lst, C, back) in OWNERSHIP}


def inside(pre, root_t):
    """inside[cls][i]: element (live) belongs to the sub-tree rooted at root (pre-state)"""
    u = pre.u
    ins = {c: [EQ(root_t, u.gid(c, i)) for i in range(u.live.get(c, 0))] for c in CLASSES}
    # containment closure, top-down (parents before children in this order)
    for c in ["Library", "Definition", "Port", "Cable", "Instance", "InnerPin", "Wire"]:
        P, back = PARENT[c]
        for i in range(u.live.get(c, 0)):
            bp = pre.sc[(c, back)][i]
            via = OR(*[AND(EQ(bp, u.gid(P, p)), ins[P][p]) for p in range(u.live.get(P, 0))])
            ins[c][i] = OR(ins[c][i], via)
    # a netlist's top instance belongs to it even when it is nobody's child
    for n in range(u.live.get("Netlist", 0)):
        top = pre.sc[("Netlist", "_top_instance")][n]
        for i in range(u.live.get("Instance", 0)):
            ins["Instance"][i] = OR(ins["Instance"][i], AND(ins["Netlist"][n], EQ(top, u.gid("Instance", i))))
    # outer pins held by inside instances
    for o in range(u.live.get("OuterPin", 0)):
        held = OR(*[AND(ins["Instance"][i], EQ(pre.pinmap[i][p], u.gid("OuterPin", o)))
                    for i in range(u.live.get("Instance", 0)) for p in range(u.live.get("InnerPin", 0))])
        ins["OuterPin"][o] = OR(ins["OuterPin"][o], held)
    return ins


def phi_of(memo, u):
    """(in_domain, image) per live element from the memo dictionary (tokens ('r', gid))"""
    dom, img = {}, {}
    for c in CLASSES:
        for i in range(u.live.get(c, 0)):
            g = u.gid(c, i)
            e = memo.e.get(("r", g))
            if e is None:
                dom[g], img[g] = False, NONE_ID
            else:
                from vf.e1.vals import raw_ref
                dom[g], img[g] = e[0], raw_ref(e[1])
    return dom, img


def clone_groups(pre, post, root_cls, root_t, result_t, memo, whole_netlist):
    u = pre.u
    ins = inside(pre, root_t)
    dom, img = phi_of(memo, u)
    G = {}
    # documented: only library and netlist clones re-point instances to copied definitions; a cloned
    # definition's (or instance's) children "still point to the reference to which they pointed before"
    remap = root_cls in ("Library", "Netlist")

    def add(name, c):
        if c is not True:
            G.setdefault(name, []).append(c)

    def phi(t, default_same=False):
        """image of a (possibly symbolic) pre-state reference t; outside the domain: itself or None"""
        keys, vals, inds = [], [], []
        for c in CLASSES:
            for i in range(u.live.get(c, 0)):
                g = u.gid(c, i)
                keys.append(g)
                vals.append(ITE(dom[g], img[g], g if default_same else NONE_ID))
        return ite_chain(t, keys, vals, NONE_ID)

    def in_dom(t):
        return OR(*[AND(EQ(t, g), d) for g, d in dom.items()])

    fresh_lo = {c: u.base[c] + u.live.get(c, 0) for c in CLASSES}
    add("clone:result-is-image-of-root", EQ(result_t, phi(root_t)))
    for c in CLASSES:
        for i in range(u.live.get(c, 0)):
            g = u.gid(c, i)
            # domain = exactly the elements inside the root
            add("clone:copies-exactly-the-elements-inside-the-root", EQ(dom[g], ins[c][i]))
            # images are fresh objects of the same class
            add("clone:copies-are-new-objects", IMPLIES(dom[g], AND(
                GE(img[g], fresh_lo[c]), LT(img[g], u.base[c] + post.nxt[c]))))
            for j in range(i):
                g2 = u.gid(c, j)
                add("clone:copies-are-new-objects", IMPLIES(AND(dom[g], dom[g2]), NE(img[g], img[g2])))

    def post_scalar(c, f, t):
        kind = SCALARS[c][f]
        default = NONE_ID if isinstance(kind, tuple) else (False if kind == "bool" else 0)
        return ite_chain(t, u.ids(c), post.sc[(c, f)], default)

    for c in CLASSES:
        for i in range(u.live.get(c, 0)):
            g = u.gid(c, i)
            d = dom[g]
            if d is False:
                continue
            im = img[g]
            # ordered containment, position by position
            for f, elc in LISTS.get(c, {}).items():
                if c == "Wire":
                    continue
                ln, el = pre.ls[(c, f)][i]
                pl = ite_chain(im, u.ids(c), [x[0] for x in post.ls[(c, f)]], -7)
                add("clone:same-ordered-structure", IMPLIES(d, EQ(pl, ln)))
                for k in range(len(el)):
                    pe = ite_chain(im, u.ids(c), [x[1][k] for x in post.ls[(c, f)]], NONE_ID)
                    add("clone:same-ordered-structure", IMPLIES(AND(d, LT(k, ln)), EQ(pe, phi(el[k]))))
            # bundle attributes, direction, data
            for f, kind in SCALARS[c].items():
                if not isinstance(kind, tuple) and f != "_is_top_instance":
                    add("clone:same-attributes-and-data", IMPLIES(d, EQ(post_scalar(c, f, im), pre.sc[(c, f)][i])))
            if c in FCE:
                for k in range(len(u.keys)):
                    pr, v = pre.data[c][i][k]
                    ppr = ite_chain(im, u.ids(c), [x[k][0] for x in post.data[c]], False)
                    pv = ite_chain(im, u.ids(c), [x[k][1] for x in post.data[c]], 0)
                    add("clone:same-attributes-and-data", IMPLIES(d, AND(EQ(ppr, pr), IMPLIES(pr, EQ(pv, v)))))
            # the root's copy is detached
            if c in PARENT:
                P, back = PARENT[c]
                add("clone:root-copy-is-detached", IMPLIES(AND(d, EQ(root_t, g)), EQ(post_scalar(c, back, im), NONE_ID)))
            # connections
            if c in ("InnerPin", "OuterPin"):
                w = pre.sc[(c, "_wire")][i]
                pw = post_scalar(c, "_wire", im)
                add("clone:connections-correspond-inside-and-are-cut-outside",
                    IMPLIES(d, EQ(pw, ITE(in_dom(w), phi(w), NONE_ID))))
            if c == "Wire":
                ln, el = pre.ls[(c, "_pins")][i]
                # the copy lists exactly the copies of the inside pins, in order (outside pins dropped)
                pl = ite_chain(im, u.ids(c), [x[0] for x in post.ls[(c, "_pins")]], -7)
                cnt = 0
                for k in range(len(el)):
                    keep = AND(LT(k, ln), in_dom(el[k]))
                    pos = cnt
                    for j in range(len(el)):
                        pe = ite_chain(im, u.ids(c), [x[1][j] for x in post.ls[(c, "_pins")]], NONE_ID)
                        add("clone:connections-correspond-inside-and-are-cut-outside",
                            IMPLIES(AND(d, keep, EQ(pos, j)), EQ(pe, phi(el[k]))))
                    from vf.e1.sym import ADD
                    cnt = ADD(cnt, ITE(keep, 1, 0))
                add("clone:connections-correspond-inside-and-are-cut-outside", IMPLIES(d, EQ(pl, cnt)))
            if c == "Instance":
                ref = pre.sc[(c, "_reference")][i]
                pref = post_scalar(c, "_reference", im)
                add("clone:references-resolve-inside-the-copy-when-the-definition-was-copied",
                    IMPLIES(d, EQ(pref, phi(ref, default_same=True) if remap else ref)))
                for p in range(u.live.get("InnerPin", 0)):
                    op = pre.pinmap[i][p]
                    # key: copy of the inner pin if it was copied, else the same inner pin
                    key = phi(u.gid("InnerPin", p), default_same=True) if remap else u.gid("InnerPin", p)
                    got = NONE_ID
                    for ii in range(u.n["Instance"]):
                        for pp in range(u.n["InnerPin"]):
                            got = ITE(AND(EQ(im, u.gid("Instance", ii)), EQ(key, u.gid("InnerPin", pp))),
                                      post.pinmap[ii][pp], got)
                    add("clone:outer-pins-correspond", IMPLIES(AND(d, NE(op, NONE_ID)), EQ(got, phi(op))))
            if c == "OuterPin":
                add("clone:outer-pins-correspond", IMPLIES(AND(d, NE(root_t, g)), AND(
                    EQ(post_scalar(c, "_instance", im), phi(pre.sc[(c, "_instance")][i])),
                    EQ(post_scalar(c, "_inner_pin", im),
                       phi(pre.sc[(c, "_inner_pin")][i], default_same=True) if remap
                       else pre.sc[(c, "_inner_pin")][i]))))
            if c == "Netlist":
                top = pre.sc[(c, "_top_instance")][i]
                add("clone:top-instance-is-the-copy", IMPLIES(d, EQ(post_scalar(c, "_top_instance", im), phi(top))))
    # the source is untouched, except the documented bookkeeping on shared definitions
    fr = spec.frame_groups(pre, post)
    for g, cs in fr.items():
        if g == "frame:Definition._references":
            continue
        for x in cs:
            add("clone:source-unchanged", x)
    for dd in range(u.live.get("Definition", 0)):
        for i in range(u.n["Instance"]):
            if i < u.live.get("Instance", 0):
                add("clone:source-unchanged", EQ(pre.refs[dd][i], post.refs[dd][i]))
            else:
                # a new instance may be registered with a definition of the source only when it
                # really references it (partial clones); never for a whole-netlist clone
                real = AND(spec.exists(post, "Instance", i),
                           EQ(post.sc[("Instance", "_reference")][i], u.gid("Definition", dd)))
                if whole_netlist:
                    add("clone:shares-nothing-with-the-original", NOT(post.refs[dd][i]))
                else:
                    add("clone:reference-bookkeeping-exact", EQ(post.refs[dd][i], real))
    if whole_netlist:
        # every link of every new object resolves inside the copy
        for c in CLASSES:
            for i in range(u.live.get(c, 0), u.n[c]):
                ex = spec.exists(post, c, i)
                for f, kind in SCALARS[c].items():
                    if isinstance(kind, tuple):
                        t = post.sc[(c, f)][i]
                        add("clone:shares-nothing-with-the-original",
                            IMPLIES(ex, OR(EQ(t, NONE_ID), *[AND(GE(t, fresh_lo[k]), LT(t, u.base[k] + u.n[k]))
                                                             for k in kind[1] if u.n[k]])))
                for f, elc in LISTS.get(c, {}).items():
                    ln, el = post.ls[(c, f)][i]
                    for k in range(len(el)):
                        add("clone:shares-nothing-with-the-original",
                            IMPLIES(AND(ex, LT(k, ln)), OR(*[AND(GE(el[k], fresh_lo[kc]), LT(el[k], u.base[kc] + u.n[kc]))
                                                             for kc in elc if u.n[kc]])))
            if c == "Instance":
                for i in range(u.live.get(c, 0), u.n[c]):
                    for p in range(u.live.get("InnerPin", 0)):
                        add("clone:shares-nothing-with-the-original",
                            IMPLIES(spec.exists(post, c, i), EQ(post.pinmap[i][p], NONE_ID)))
    # the public classes are used (isinstance-based queries work on the copy)
    for c in CLASSES:
        for i in range(u.live.get(c, 0), u.n[c]):
            if post.exact[c][i] is not True:
                add("clone:copies-are-instances-of-the-public-classes",
                    IMPLIES(spec.exists(post, c, i), post.exact[c][i]))
    return G
