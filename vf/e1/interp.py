"""Engine E1 core: guarded (path-merging) symbolic interpreter for the Python AST of the real
spydrnet functions.  Source is read with inspect/ast from the live modules on every run."""
import ast
import builtins
import inspect
import textwrap
import types

import z3
from vf.e1.sym import (Ref, SInt, SBool, SAtom, ATOMS, NONE_ID, is_sym, ITE, AND, OR, NOT, EQ, NE,
                       LT, LE, GE, GT, ADD, SUB, MUL, B, I, Unsupported, mkbool, mkint, atom_of,
                       atom_concrete, lift, unwrap_atom)
from vf.e1.heap import SList, CLASSES
from vf.e1.vals import (Local, BoundMethod, RefMethod, SymMethod, SuperProxy, HeapSet, PinMap,
                        HeapData, SOpt, merge, truth, raw_bool, raw_int, raw_ref, present, seq_len,
                        compact, from_pylist, PyIter)

EXC_KINDS = ["AssertionError", "KeyError", "ValueError", "AttributeError", "TypeError",
             "IndexError", "RuntimeError", "NotImplementedError", "StopIteration", "Other"]


class Ctx:
    def __init__(self, heap, real, loop_bound=4):
        self.h = heap
        self.u = heap.u
        self.real = real                # class name -> live (extended) class object
        self.exc = False                # raw bool: an exception is propagating
        self.exc_kind = {k: False for k in EXC_KINDS}
        self.bound = False              # raw bool: an unwinding/capacity assertion failed
        self.bound_why = []
        self.events = []                # [(guard, name, args)]
        self.globals_over = {}          # (module name, var) -> value  (symbolic module state)
        self.attr_over = {}             # (id(obj), attr) -> value  (class/module attribute state)
        self.loop_bound = loop_bound
        self.depth = 0
        self.steps = 0
        self.natives = {}               # callable -> handler(ctx, fr, args, kwargs)
        self.interp_prefixes = ("spydrnet",)
        self.funcs_seen = set()
        self.stubs = {}                 # function object -> replacement python callable(ctx,fr,args,kwargs)
        self.snapshots = []

    def name_of_cls(self, cls):
        """IR class name for a real class object (base or extended), else None"""
        n = getattr(cls, "__name__", None)
        if n in self.real and issubclass(self.real[n], cls):
            return n
        return None


class Loop:
    def __init__(self):
        self.broke = False
        self.cont = False


class Frame:
    def __init__(self, fn, g, glob, owner=None, cells=None):
        self.fn = fn
        self.vars = {}
        self.g = g
        self.returned = False
        self.ret = None
        self.has_ret = False
        self.globals = glob
        self.owner = owner
        self.cells = cells or {}
        self.loops = []
        self.yields = None              # list collecting (guard, value) for generators
        self.nonlocals = set()
        self.parent = None


def live(ctx, fr):
    g = AND(fr.g, NOT(ctx.exc), NOT(fr.returned))
    for lp in fr.loops:
        # an enclosing loop's `continue`/`break` earlier in its current iteration also disables
        # everything nested deeper (including inner loops entered afterwards)
        g = AND(g, NOT(lp.broke), NOT(lp.cont))
    return g


def raise_if(ctx, fr, cond, kind="Other"):
    c = AND(live(ctx, fr), cond)
    if c is False:
        return
    if ctx.__dict__.get("prune_infeasible_raises") and c is not True and not feasible(ctx, c):
        # opt-in (jobs whose run is concrete except for a few flags): a raise whose condition the solver refutes
        # under the pre-state assumptions is dropped instead of making every later step conditional on it
        return
    ctx.exc = OR(ctx.exc, c)
    if kind not in ctx.exc_kind:
        kind = "Other"
    ctx.exc_kind[kind] = OR(ctx.exc_kind[kind], c)


def bound_if(ctx, fr, cond, why):
    c = AND(live(ctx, fr), cond)
    if c is False:
        return
    if ctx.__dict__.get("prune_infeasible_raises") and c is not True and not feasible(ctx, c):
        return
    ctx.bound = OR(ctx.bound, c)
    ctx.bound_why.append(why)
    ctx.__dict__.setdefault("bound_log", []).append((c, why, "%s:%s" % (getattr(fr.fn, "__qualname__", "?"), ctx.__dict__.get("cur_line", "?"))))
    # execution past a violated bound is meaningless: treat as abort
    ctx.exc = OR(ctx.exc, c)
    ctx.exc_kind["Other"] = OR(ctx.exc_kind["Other"], c)


# ------------------------------------------------------------------------------------------------
_AST = {}


def fn_ast(fn):
    code = fn.__code__
    if code not in _AST:
        src = textwrap.dedent(inspect.getsource(fn))
        tree = ast.parse(src)
        node = tree.body[0]
        _AST[code] = node
    return _AST[code]


def interpretable(ctx, fn):
    mod = getattr(fn, "__module__", None) or ""
    return isinstance(fn, types.FunctionType) and mod.startswith(ctx.interp_prefixes)


def call_function(ctx, fr_outer, fn, args, kwargs=None, owner=None, cells=None):
    """interpret python function `fn` on symbolic args under the caller's live guard"""
    if fn in ctx.stubs:
        return ctx.stubs[fn](ctx, fr_outer, list(args), dict(kwargs or {}))
    node = fn_ast(fn)
    ctx.funcs_seen.add(fn)
    stack = ctx.__dict__.setdefault("call_stack", [])
    if has_while(node) and ctx.__dict__.get("path_assumptions"):
        # loops are expensive to unroll: enter only if the path is feasible from the assumed pre-state
        if not feasible(ctx, live(ctx, fr_outer)):
            return None
    if fn in stack or ctx.depth > 25:
        # re-entering a function that is already active: descend only if the path is feasible
        # (path merging keeps syntactically live guards that are logically contradictory)
        if not feasible(ctx, live(ctx, fr_outer)):
            return None
        if stack.count(fn) >= ctx.__dict__.get("rec_limit", 4):
            bound_if(ctx, fr_outer, True, "recursion deeper than %d in %s" % (
                ctx.__dict__.get("rec_limit", 4), fn.__qualname__))
            return None
    ctx.depth += 1
    stack.append(fn)
    if ctx.depth > 80:
        raise Unsupported("call depth exceeded at %s" % fn.__qualname__)
    fr = Frame(fn, live(ctx, fr_outer), fn.__globals__, owner, cells)
    fr.parent = fr_outer
    if fn.__closure__:
        for nm, cell in zip(fn.__code__.co_freevars, fn.__closure__):
            if nm not in fr.cells:
                try:
                    fr.cells[nm] = ["const", cell.cell_contents]
                except ValueError:
                    pass
    bind_args(ctx, fr, fn, node, list(args), dict(kwargs or {}))
    is_gen = any(isinstance(n, (ast.Yield, ast.YieldFrom)) for n in ast.walk(node)
                 if not isinstance(n, (ast.FunctionDef, ast.Lambda)) or n is node)
    if is_gen:
        fr.yields = []
    try:
        exec_block(ctx, fr, node.body)
    finally:
        ctx.depth -= 1
        stack.pop()
    if is_gen:
        return gen_result(ctx, fr)
    return fr.ret if fr.has_ret else None


_HAS_WHILE = {}


def has_while(node):
    if node not in _HAS_WHILE:
        _HAS_WHILE[node] = any(isinstance(n, ast.While) for n in ast.walk(node))
    return _HAS_WHILE[node]


def feasible(ctx, g):
    if g is False:
        return False
    if g is True:
        return True
    # one incremental solver per context: the pre-state assumptions are asserted once, each query is push/pop
    pa = ctx.__dict__.get("path_assumptions", [])
    cache = ctx.__dict__.get("_feas")
    if cache is None or cache[1] != len(pa):
        s = z3.Solver()
        s.set("timeout", 20000)
        for a in pa:
            s.add(a)
        cache = ctx.__dict__["_feas"] = (s, len(pa), {})
    s, _, memo = cache
    key = g.get_id() if hasattr(g, "get_id") else None
    if key is not None and key in memo:
        return memo[key]
    s.push()
    s.add(g)
    r = str(s.check()) != "unsat"
    s.pop()
    if key is not None:
        memo[key] = r
    return r


def gen_result(ctx, fr):
    """generator -> masked sequence of yielded values"""
    ys = fr.yields
    if not ys:
        return SList(0, [])
    sl = SList(len(ys), [v for _, v in ys], mask=[g for g, _ in ys])
    return compact(sl) if any(g is not True for g, _ in ys) else SList(len(ys), [v for _, v in ys])


def bind_args(ctx, fr, fn, node, args, kwargs):
    a = node.args
    params = [p.arg for p in a.posonlyargs + a.args]
    defaults = a.defaults
    nd = len(defaults)
    fdefaults = fn.__defaults__ or ()
    for i, p in enumerate(params):
        if i < len(args):
            fr.vars[p] = args[i]
        elif p in kwargs:
            fr.vars[p] = kwargs.pop(p)
        else:
            j = i - (len(params) - nd)
            if j < 0:
                raise Unsupported("missing argument %s of %s" % (p, fn.__qualname__))
            fr.vars[p] = fdefaults[j]
    if a.vararg:
        fr.vars[a.vararg.arg] = tuple(args[len(params):])
    elif len(args) > len(params):
        raise Unsupported("too many positional args for %s" % fn.__qualname__)
    kwd = fn.__kwdefaults__ or {}
    for p in a.kwonlyargs:
        if p.arg in kwargs:
            fr.vars[p.arg] = kwargs.pop(p.arg)
        else:
            fr.vars[p.arg] = kwd[p.arg]
    if a.kwarg:
        fr.vars[a.kwarg.arg] = dict(kwargs)
    elif kwargs:
        raise Unsupported("unexpected kwargs %s for %s" % (list(kwargs), fn.__qualname__))


# ------------------------------------------------------------------------------------------------
def exec_block(ctx, fr, stmts):
    for s in stmts:
        if live(ctx, fr) is False:
            return
        try:
            exec_stmt(ctx, fr, s)
        except Unsupported as e:
            # annotate once with the source location that was being interpreted
            if not getattr(e, "located", False):
                e.located = True
                e.args = ("%s [at %s:%s]" % (e.args[0] if e.args else "", getattr(fr.fn, "__qualname__", "?"),
                                             getattr(s, "lineno", "?")),)
            raise


def set_var(ctx, fr, name, v):
    g = live(ctx, fr)
    if name in fr.nonlocals or (name in fr.cells and name not in fr.vars):
        cell = fr.cells[name]
        if cell[0] == "const":
            cell[0] = "var"
        cell[1] = merge(g, v, cell[1]) if cell[1] is not None or g is not True else v
        return
    if name in fr.vars and g is not True:
        try:
            fr.vars[name] = merge(g, v, fr.vars[name])
        except Unsupported:
            # the old value has a different shape: it can only be read on paths where it was
            # assigned, so the newer value wins (python would raise/see the new value)
            fr.vars[name] = v
    else:
        fr.vars[name] = v


def exec_stmt(ctx, fr, s):
    ctx.steps += 1
    ctx.cur_line = getattr(s, "lineno", 0)
    t = type(s)
    if t is ast.Expr:
        if isinstance(s.value, ast.Constant):
            return
        ev(ctx, fr, s.value)
    elif t is ast.Assign:
        v = ev(ctx, fr, s.value)
        for tgt in s.targets:
            assign(ctx, fr, tgt, v)
    elif t is ast.AugAssign:
        cur = ev(ctx, fr, s.target)
        v = ev(ctx, fr, s.value)
        from vf.e1 import ops
        r = ops.aug_binop(ctx, fr, s.op, cur, v)
        if r is not ops.INPLACE:
            assign(ctx, fr, s.target, r)
    elif t is ast.AnnAssign:
        if s.value is not None:
            assign(ctx, fr, s.target, ev(ctx, fr, s.value))
    elif t is ast.Assert:
        c = ev_truth(ctx, fr, s.test)
        raise_if(ctx, fr, NOT(c), "AssertionError")
    elif t is ast.If:
        cv = ev_truth(ctx, fr, s.test)
        g0 = fr.g
        nar = isinstance_narrowing(ctx, fr, s.test)
        if cv is not False:
            fr.g = AND(g0, cv)
            if nar and nar[1] is not None:
                saved = fr.vars[nar[0]]
                fr.vars[nar[0]] = nar[1]
                exec_block(ctx, fr, s.body)
                _restore_narrowed(fr, nar[0], nar[1], saved)
            else:
                exec_block(ctx, fr, s.body)
        if cv is not True and s.orelse:
            fr.g = AND(g0, NOT(cv))
            if nar and nar[2] is not None:
                saved = fr.vars[nar[0]]
                fr.vars[nar[0]] = nar[2]
                exec_block(ctx, fr, s.orelse)
                _restore_narrowed(fr, nar[0], nar[2], saved)
            else:
                exec_block(ctx, fr, s.orelse)
        fr.g = g0
    elif t is ast.For:
        exec_for(ctx, fr, s)
    elif t is ast.While:
        exec_while(ctx, fr, s)
    elif t is ast.Break:
        lp = fr.loops[-1]
        lp.broke = OR(lp.broke, live(ctx, fr))
    elif t is ast.Continue:
        lp = fr.loops[-1]
        lp.cont = OR(lp.cont, live(ctx, fr))
    elif t is ast.Return:
        v = ev(ctx, fr, s.value) if s.value is not None else None
        g = live(ctx, fr)
        # a return inside loops must also stop the loops: `returned` is part of live()
        if fr.has_ret:
            fr.ret = merge(g, v, fr.ret)
        else:
            fr.ret, fr.has_ret = v, True
        fr.returned = OR(fr.returned, g)
    elif t is ast.Pass:
        pass
    elif t is ast.Raise:
        kind = "Other"
        if s.exc is not None:
            e = s.exc
            nm = e.func if isinstance(e, ast.Call) else e
            if isinstance(nm, ast.Name):
                kind = nm.id
            if isinstance(e, ast.Call):
                for a_ in e.args:      # evaluate message for side effects/exceptions (cheaply)
                    try:
                        ev(ctx, fr, a_)
                    except Unsupported:
                        pass
        raise_if(ctx, fr, True, kind)
    elif t is ast.Delete:
        from vf.e1 import ops
        for tgt in s.targets:
            if isinstance(tgt, ast.Subscript):
                obj = ev(ctx, fr, tgt.value)
                key = ev(ctx, fr, tgt.slice)
                ops.delitem(ctx, fr, obj, key)
            elif isinstance(tgt, ast.Attribute):
                obj = ev(ctx, fr, tgt.value)
                del_attr(ctx, fr, obj, tgt.attr)
            elif isinstance(tgt, ast.Name):
                fr.vars.pop(tgt.id, None)
            else:
                raise Unsupported("del target")
    elif t is ast.Try:
        exec_try(ctx, fr, s)
    elif t in (ast.Import, ast.ImportFrom):
        exec_import(ctx, fr, s)
    elif t is ast.Global:
        fr.global_names = getattr(fr, "global_names", set()) | set(s.names)
    elif t is ast.Nonlocal:
        fr.nonlocals |= set(s.names)
    elif t is ast.FunctionDef:
        fr.vars[s.name] = Closure(s, fr)
    elif t is ast.With:
        exec_with(ctx, fr, s)
    else:
        raise Unsupported("statement %s at %s:%s" % (t.__name__, getattr(fr.fn, "__qualname__", "?"),
                                                     getattr(s, "lineno", "?")))


def _restore_narrowed(fr, name, narrowed, saved):
    cur = fr.vars.get(name)
    if cur is narrowed:
        fr.vars[name] = saved
    elif isinstance(cur, Ref) and isinstance(saved, Ref):
        # re-assigned inside the branch (merged with the narrowed value on the other paths): the
        # static candidate set must cover what the variable held outside the branch as well
        fr.vars[name] = Ref(cur.t, cur.cands | saved.cands)


def isinstance_narrowing(ctx, fr, test):
    """`if isinstance(x, C):` on a local reference x: (name, x narrowed to C, x narrowed to not-C).
    The candidate-class sets are static information only; the symbolic slot id is unchanged."""
    if not (isinstance(test, ast.Call) and isinstance(test.func, ast.Name) and test.func.id == "isinstance"
            and len(test.args) == 2 and isinstance(test.args[0], ast.Name)):
        return None
    nm = test.args[0].id
    v = fr.vars.get(nm)
    if not isinstance(v, Ref):
        return None
    try:
        if lookup_name(ctx, fr, "isinstance") is not isinstance:
            return None
        cls = ev(ctx, fr, test.args[1])
    except Unsupported:
        return None
    classes = cls if isinstance(cls, tuple) else (cls,)
    if not all(isinstance(k, type) for k in classes):
        return None
    yes = [c for c in v.cands if any(issubclass(ctx.real[c], k) for k in classes)]
    no = [c for c in v.cands if c not in yes]
    return (nm, Ref(v.t, yes) if yes else None, Ref(v.t, no) if no else None)


class Closure:
    """nested def / lambda: captures the defining frame"""

    def __init__(self, node, frame):
        self.node, self.frame = node, frame


def call_closure(ctx, fr_outer, clo, args, kwargs):
    node = clo.node
    fr = Frame(clo.frame.fn, live(ctx, fr_outer), clo.frame.globals, clo.frame.owner)
    fr.parent = clo.frame
    fr.closure_of = clo.frame
    a = node.args
    params = [p.arg for p in a.args]
    nd = len(a.defaults)
    for i, p in enumerate(params):
        if i < len(args):
            fr.vars[p] = args[i]
        elif p in kwargs:
            fr.vars[p] = kwargs[p]
        else:
            fr.vars[p] = ev(ctx, clo.frame, a.defaults[i - (len(params) - nd)])
    if isinstance(node, ast.Lambda):
        return ev(ctx, fr, node.body)
    exec_block(ctx, fr, node.body)
    return fr.ret if fr.has_ret else None


def exec_import(ctx, fr, s):
    import importlib
    if isinstance(s, ast.ImportFrom):
        mod = importlib.import_module(s.module)
        for al in s.names:
            fr.vars[al.asname or al.name] = getattr(mod, al.name)
    else:
        for al in s.names:
            m = importlib.import_module(al.name)
            fr.vars[al.asname or al.name.split(".")[0]] = m if al.asname else importlib.import_module(
                al.name.split(".")[0])


def exec_for(ctx, fr, s):
    from vf.e1 import ops
    it = ops.iter_values(ctx, fr, ev(ctx, fr, s.iter))
    g0 = fr.g
    lp = Loop()
    fr.loops.append(lp)
    exhausted_ok = True
    if isinstance(it, SList):
        for k in range(it.cap):
            lp.cont = False
            if it.home is not None and it.home[0] != "sdict" and it.mask is None:
                # python's list iterator is index based and sees mutations made by the loop body:
                # re-read the list object of the heap field at every step
                _, c_, f_, t_ = it.home
                it, _ok = ctx.h.read_list(Ref(t_, (c_,)), f_)
            fr.g = AND(g0, present(it, k))
            if live(ctx, fr) is False:
                continue
            assign(ctx, fr, s.target, it.el[k])
            exec_block(ctx, fr, s.body)
    else:
        for v in it:
            lp.cont = False
            fr.g = g0
            if live(ctx, fr) is False:
                break
            assign(ctx, fr, s.target, v)
            exec_block(ctx, fr, s.body)
    lp.cont = False
    fr.g = g0
    broke = lp.broke
    fr.loops.pop()
    if s.orelse:
        fr.g = AND(g0, NOT(broke))
        exec_block(ctx, fr, s.orelse)
        fr.g = g0


def exec_while(ctx, fr, s):
    g_outer = fr.g
    lp = Loop()
    fr.loops.append(lp)
    g_iter = g_outer
    n = getattr(ctx, "while_bounds", {}).get((getattr(fr.fn, "__qualname__", ""), s.lineno),
                                             ctx.loop_bound)
    for i in range(n + 1):
        lp.cont = False
        fr.g = g_iter
        if live(ctx, fr) is False:
            break
        c = ev_truth(ctx, fr, s.test)
        if c is False:
            break
        if i == n:
            bound_if(ctx, fr, c, "while loop at %s:%s needs more than %d iterations" % (
                getattr(fr.fn, "__qualname__", "?"), s.lineno, n))
            break
        g_iter = AND(g_iter, c)
        fr.g = g_iter
        exec_block(ctx, fr, s.body)
    lp.cont = False
    broke = lp.broke
    fr.loops.pop()
    fr.g = g_outer
    if s.orelse:
        fr.g = AND(g_outer, NOT(broke))
        exec_block(ctx, fr, s.orelse)
        fr.g = g_outer


def exec_try(ctx, fr, s):
    exc0 = ctx.exc
    kind0 = dict(ctx.exc_kind)
    g0 = fr.g
    ret0 = fr.returned
    exec_block(ctx, fr, s.body)
    new_exc = AND(ctx.exc, NOT(exc0))
    new_kind = {k: AND(ctx.exc_kind[k], NOT(kind0[k])) for k in ctx.exc_kind}
    bound_part = ctx.bound
    if new_exc is not False and s.handlers:
        # temporarily clear the new exception, run the matching handler under its guard
        remaining = new_exc
        ctx.exc = exc0
        ctx.exc_kind = dict(kind0)
        for h in s.handlers:
            names = handler_names(h)
            if names is None:
                m = remaining
            else:
                m = OR(*[new_kind.get(n, False) for n in names])
                if any(n in ("Exception", "BaseException") for n in names):
                    m = remaining
            m = AND(m, remaining, NOT(bound_part))
            if m is False:
                continue
            remaining = AND(remaining, NOT(m))
            fr.g = AND(g0, m)
            if h.name:
                fr.vars[h.name] = Local(Exception, {})
            exec_block(ctx, fr, h.body)
            fr.g = g0
        # unmatched part keeps propagating
        ctx.exc = OR(ctx.exc, remaining)
        for k in new_kind:
            ctx.exc_kind[k] = OR(ctx.exc_kind[k], AND(new_kind[k], remaining))
    if s.orelse:
        fr.g = AND(g0, NOT(new_exc))
        exec_block(ctx, fr, s.orelse)
        fr.g = g0
    if s.finalbody:
        # the finally block runs whether or not an exception/return is in flight
        pend_exc, pend_kind, pend_ret = ctx.exc, dict(ctx.exc_kind), fr.returned
        ctx.exc, fr.returned = exc0, ret0
        ctx.exc_kind = dict(kind0)
        saved_loops = fr.loops
        fr.loops = []
        fr.g = g0
        exec_block(ctx, fr, s.finalbody)
        fr.loops = saved_loops
        ctx.exc = OR(ctx.exc, pend_exc)
        for k in pend_kind:
            ctx.exc_kind[k] = OR(ctx.exc_kind[k], pend_kind[k])
        fr.returned = OR(fr.returned, pend_ret)
    fr.g = g0


def handler_names(h):
    if h.type is None:
        return None
    if isinstance(h.type, ast.Name):
        return [h.type.id]
    if isinstance(h.type, ast.Attribute):
        return [h.type.attr]
    if isinstance(h.type, ast.Tuple):
        return [e.id if isinstance(e, ast.Name) else getattr(e, "attr", "Other") for e in h.type.elts]
    return None


def exec_with(ctx, fr, s):
    from vf.e1 import ops
    for item in s.items:
        v = ev(ctx, fr, item.context_expr)
        if item.optional_vars is not None:
            assign(ctx, fr, item.optional_vars, v)
    exec_block(ctx, fr, s.body)


# ------------------------------------------------------------------------------------------------
def assign(ctx, fr, tgt, v):
    from vf.e1 import ops
    t = type(tgt)
    if t is ast.Name:
        if tgt.id in getattr(fr, "global_names", ()):
            key = (fr.globals.get("__name__"), tgt.id)
            old = ctx.globals_over.get(key, fr.globals.get(tgt.id))
            ctx.globals_over[key] = merge(live(ctx, fr), v, old)
        else:
            set_var(ctx, fr, tgt.id, v)
    elif t is ast.Attribute:
        obj = ev(ctx, fr, tgt.value)
        set_attr(ctx, fr, obj, tgt.attr, v)
    elif t in (ast.Tuple, ast.List):
        vals = ops.unpack(ctx, fr, v, len(tgt.elts))
        for e, x in zip(tgt.elts, vals):
            assign(ctx, fr, e, x)
    elif t is ast.Subscript:
        obj = ev(ctx, fr, tgt.value)
        key = ev(ctx, fr, tgt.slice)
        ops.setitem(ctx, fr, obj, key, v)
    elif t is ast.Starred:
        raise Unsupported("starred assignment")
    else:
        raise Unsupported("assign target %s" % t.__name__)


def lookup_name(ctx, fr, name):
    f = fr
    while f is not None:
        if name in f.vars:
            return f.vars[name]
        if name in f.cells:
            return f.cells[name][1]
        f = getattr(f, "closure_of", None)
    gname = fr.globals.get("__name__")
    if (gname, name) in ctx.globals_over:
        return ctx.globals_over[(gname, name)]
    if name in fr.globals:
        return fr.globals[name]
    if hasattr(builtins, name):
        return getattr(builtins, name)
    raise Unsupported("unbound name %s in %s" % (name, getattr(fr.fn, "__qualname__", "?")))


def ev_truth(ctx, fr, e):
    """evaluate expression `e` in a boolean context -> raw bool (python-exact short circuit)"""
    t = type(e)
    if t is ast.BoolOp:
        g0 = fr.g
        is_and = isinstance(e.op, ast.And)
        acc = True        # all earlier operands let evaluation continue
        res = True if is_and else False
        for sub in e.values:
            fr.g = AND(g0, acc)
            if live(ctx, fr) is False:
                break
            tv = ev_truth(ctx, fr, sub)
            if is_and:
                res = AND(res, OR(NOT(acc), tv))
                acc = AND(acc, tv)
            else:
                res = OR(res, AND(acc, tv))
                acc = AND(acc, NOT(tv))
        fr.g = g0
        return res
    if t is ast.UnaryOp and isinstance(e.op, ast.Not):
        return NOT(ev_truth(ctx, fr, e.operand))
    return truth_of(ctx, fr, ev(ctx, fr, e))


def truth_of(ctx, fr, v):
    from vf.e1 import ops as _o
    from vf.e1 import nsmodel as _NS
    if isinstance(v, _NS.NSObj):
        return NE(v.t, NONE_ID)
    if isinstance(v, _NS.NSManagerDict):
        return True
    if isinstance(v, (HeapSet, PinMap, HeapData, _o.SDict)):
        from vf.e1.calls import h_len
        return GT(raw_int(h_len(ctx, fr, [v], {})), 0)
    if isinstance(v, (BoundMethod, RefMethod, SymMethod, Closure)):
        return True
    t = truth(v)
    if isinstance(t, str) and t == "local":
        from vf.e1 import ops
        return ops.local_truth(ctx, fr, v)
    return t


def ev(ctx, fr, e):
    from vf.e1 import ops
    t = type(e)
    if t is ast.Constant:
        return e.value
    if t is ast.Name:
        return lookup_name(ctx, fr, e.id)
    if t is ast.Attribute:
        obj = ev(ctx, fr, e.value)
        return get_attr(ctx, fr, obj, e.attr)
    if t is ast.Call:
        return ev_call(ctx, fr, e)
    if t is ast.BoolOp:
        # short circuit: later operands are evaluated under the guard set by the earlier ones
        g0 = fr.g
        vals, conds = [], []
        is_and = isinstance(e.op, ast.And)
        acc = True
        res = None
        for i, sub in enumerate(e.values):
            fr.g = AND(g0, acc)
            if live(ctx, fr) is False and i > 0:
                break
            v = ev(ctx, fr, sub)
            tv = truth_of(ctx, fr, v)
            vals.append(v)
            conds.append(tv)
            acc = AND(acc, tv if is_and else NOT(tv))
        fr.g = g0
        # value: first falsy (and) / first truthy (or), else last
        res = vals[-1]
        for v, c in reversed(list(zip(vals[:-1], conds[:-1]))):
            stop = NOT(c) if is_and else c
            if all(isinstance(x, (bool, SBool)) for x in (v, res)):
                res = mkbool(ITE(stop, raw_bool(v), raw_bool(res)))
            else:
                res = merge(stop, v, res)
        return res
    if t is ast.UnaryOp:
        v = ev(ctx, fr, e.operand)
        if isinstance(e.op, ast.Not):
            return mkbool(NOT(truth_of(ctx, fr, v)))
        if isinstance(e.op, ast.USub):
            if isinstance(v, SOpt):
                raise_if(ctx, fr, v.isnone, "TypeError")
                v = v.val
            return mkint(-raw_int(v)) if isinstance(v, SInt) else -v
        if isinstance(e.op, ast.UAdd):
            return v
        raise Unsupported("unary op")
    if t is ast.Compare:
        left = ev(ctx, fr, e.left)
        res = True
        g0 = fr.g
        for op, c in zip(e.ops, e.comparators):
            fr.g = AND(g0, res)
            right = ev(ctx, fr, c)
            r = ops.compare(ctx, fr, op, left, right)
            res = AND(res, r)
            left = right
        fr.g = g0
        return mkbool(res)
    if t is ast.BinOp:
        l = ev(ctx, fr, e.left)
        r = ev(ctx, fr, e.right)
        return ops.binop(ctx, fr, e.op, l, r)
    if t is ast.IfExp:
        c = ev_truth(ctx, fr, e.test)
        g0 = fr.g
        a = b = None
        if c is not False:
            fr.g = AND(g0, c)
            a = ev(ctx, fr, e.body)
        if c is not True:
            fr.g = AND(g0, NOT(c))
            b = ev(ctx, fr, e.orelse)
        fr.g = g0
        if c is True:
            return a
        if c is False:
            return b
        return merge(c, a, b)
    if t is ast.Subscript:
        obj = ev(ctx, fr, e.value)
        if isinstance(e.slice, ast.Slice):
            lo = ev(ctx, fr, e.slice.lower) if e.slice.lower is not None else None
            hi = ev(ctx, fr, e.slice.upper) if e.slice.upper is not None else None
            st = ev(ctx, fr, e.slice.step) if e.slice.step is not None else None
            return ops.getslice(ctx, fr, obj, lo, hi, st)
        key = ev(ctx, fr, e.slice)
        return ops.getitem(ctx, fr, obj, key)
    if t is ast.Tuple:
        return tuple(ev(ctx, fr, x) for x in e.elts)
    if t is ast.List:
        return from_pylist([ev(ctx, fr, x) for x in e.elts], cap=ctx.u.K)
    if t is ast.Set:
        return ops.make_set(ctx, fr, from_pylist([ev(ctx, fr, x) for x in e.elts]))
    if t is ast.Dict:
        return ops.make_dict(ctx, fr, [(ev(ctx, fr, k), ev(ctx, fr, v)) for k, v in zip(e.keys, e.values)])
    if t in (ast.GeneratorExp, ast.ListComp, ast.SetComp):
        sl = ops.comprehension(ctx, fr, e)
        if t is ast.SetComp:
            return ops.make_set(ctx, fr, sl)
        if t is ast.GeneratorExp:
            from vf.e1.vals import SGen
            return SGen(sl)
        return sl
    if t is ast.DictComp:
        return ops.dict_comprehension(ctx, fr, e)
    if t is ast.Lambda:
        return Closure(e, fr)
    if t is ast.JoinedStr:
        parts = []
        for v in e.values:
            if isinstance(v, ast.Constant):
                parts.append(v.value)
            else:
                parts.append(ops.to_str(ctx, fr, ev(ctx, fr, v.value)))
        return ops.concat_strs(ctx, fr, parts)
    if t is ast.Yield:
        v = ev(ctx, fr, e.value) if e.value is not None else None
        target = fr
        while target.yields is None and getattr(target, "closure_of", None) is not None:
            target = target.closure_of
        target.yields.append((live(ctx, fr), v))
        return None
    if t is ast.YieldFrom:
        it = ops.iter_values(ctx, fr, ev(ctx, fr, e.value))
        if isinstance(it, SList):
            for k in range(it.cap):
                fr.yields.append((AND(live(ctx, fr), present(it, k)), it.el[k]))
        else:
            for v in it:
                fr.yields.append((live(ctx, fr), v))
        return None
    if t is ast.Starred:
        raise Unsupported("starred expression")
    if t is ast.NamedExpr:
        v = ev(ctx, fr, e.value)
        set_var(ctx, fr, e.target.id, v)
        return v
    raise Unsupported("expression %s at line %s" % (t.__name__, getattr(e, "lineno", "?")))


def ev_call(ctx, fr, e):
    from vf.e1 import ops
    # all(...)/any(...) over a generator: exact short-circuit semantics
    if isinstance(e.func, ast.Name) and e.func.id in ("all", "any") and len(e.args) == 1 and \
            isinstance(e.args[0], ast.GeneratorExp) and lookup_name(ctx, fr, e.func.id) in (all, any):
        return ops.all_any(ctx, fr, e.func.id == "all", e.args[0])
    f = ev(ctx, fr, e.func)
    args = []
    for a in e.args:
        if isinstance(a, ast.Starred):
            v = ev(ctx, fr, a.value)
            if isinstance(v, (tuple, list)):
                args.extend(v)
            elif isinstance(v, SList) and not is_sym(v.len) and v.mask is None:
                args.extend(v.el[:v.len])
            else:
                raise Unsupported("*args with symbolic length")
        else:
            args.append(ev(ctx, fr, a))
    kwargs = {}
    for k in e.keywords:
        if k.arg is None:
            v = ev(ctx, fr, k.value)
            if isinstance(v, dict):
                kwargs.update(v)
            else:
                raise Unsupported("**kwargs with symbolic dict")
        else:
            kwargs[k.arg] = ev(ctx, fr, k.value)
    return ops.call(ctx, fr, f, args, kwargs)


# ------------------------------------------------------------------------------------------------
# attributes
def mro_lookup(cls, name):
    for k in cls.__mro__:
        if name in k.__dict__:
            return k.__dict__[name], k
    return None, None


def maybe_lift(ctx, obj):
    """real instances of spydrnet classes that are not IR objects (the namespace manager, ...)
    are handled as Local records so that their attributes are symbolic state"""
    import enum
    if isinstance(obj, (Ref, Local, type, types.ModuleType, types.FunctionType, types.MethodType,
                        enum.Enum, str, int, tuple, list, dict, set, frozenset, type(None))):
        return obj
    mod = getattr(type(obj), "__module__", "") or ""
    if mod.startswith(ctx.interp_prefixes) and hasattr(obj, "__dict__"):
        from vf.e1.calls import lift_object
        return lift_object(ctx, obj)
    return obj


def get_attr(ctx, fr, obj, name):
    from vf.e1 import ops
    obj = maybe_lift(ctx, obj)
    if isinstance(obj, Ref) or obj is None and False:
        return get_attr_ref(ctx, fr, obj, name)
    if obj is None:
        raise_if(ctx, fr, True, "AttributeError")
        return None
    if isinstance(obj, Local) and "__fwd__" in obj.f:
        return get_attr(ctx, fr, obj.f["__fwd__"], name)
    if isinstance(obj, Local):
        if name in obj.f:
            v = obj.f[name]
            if isinstance(v, SList) and v.home is not None and v.home[0] != "sdict":
                # a view keeps a reference to the list OBJECT of a heap field: read its current contents
                _, c_, f_, t_ = v.home
                cur, _ok = ctx.h.read_list(Ref(t_, (c_,)), f_)
                return cur
            return v
        if name == "__class__":
            return obj.cls
        for k in obj.cls.__mro__:
            if (id(k), name) in ctx.attr_over:
                return ctx.attr_over[(id(k), name)]
        a, owner = mro_lookup(obj.cls, name)
        if a is None:
            raise_if(ctx, fr, True, "AttributeError")
            return None
        if isinstance(a, property):
            return call_function(ctx, fr, a.fget, [obj], owner=owner)
        if isinstance(a, types.FunctionType):
            return BoundMethod(a, obj, owner)
        if isinstance(a, staticmethod):
            return a.__func__
        if isinstance(a, classmethod):
            return BoundMethod(a.__func__, obj.cls, owner)
        if (id(obj.cls), name) in ctx.attr_over:
            return ctx.attr_over[(id(obj.cls), name)]
        if type(a) in (list, set, dict) and not a:
            # a mutable container defined at CLASS level is one object shared by every instance: it is modelled
            # once per class (symbolic list / set / dict) so that what one object adds, the next one sees
            from vf.e1 import ops as _ops
            v = SList(0, [], None, isinstance(a, set)) if not isinstance(a, dict) else _ops.make_dict(ctx, fr, [])
            ctx.attr_over[(id(owner), name)] = v
            return v
        return a
    if isinstance(obj, SuperProxy):
        sv = obj.selfv
        if isinstance(sv, Ref):
            impls = {}
            for c in sorted(sv.cands):
                mro = ctx.real[c].__mro__
                idx = mro.index(obj.owner) if obj.owner in mro else -1
                for k in mro[idx + 1:]:
                    if name in k.__dict__:
                        impls.setdefault((k.__dict__[name], k), []).append(c)
                        break
            lst = [(fn, owner, cs) for (fn, owner), cs in impls.items()]
            return RefMethod(sv, name, lst)
        cls = sv.cls if isinstance(sv, Local) else sv
        mro = cls.__mro__
        idx = mro.index(obj.owner)
        for k in mro[idx + 1:]:
            if name in k.__dict__:
                a = k.__dict__[name]
                if isinstance(a, types.FunctionType):
                    return BoundMethod(a, sv, k)
                if isinstance(a, classmethod):
                    return BoundMethod(a.__func__, cls, k)
                if k is object and name == "__init__":
                    return ops.NOOP
                return a
        raise Unsupported("super().%s" % name)
    from vf.e1 import nsmodel as NS
    from vf.e1 import hier as _H
    if _H.is_hpath_value(obj):
        return _H.hpath_attr(ctx, fr, obj, name)
    if isinstance(obj, NS.NSObj):
        if name == "namespaces":
            return NS.NSTypeDict(obj.t, "name")
        if name == "edif_namespaces":
            return NS.NSTypeDict(obj.t, "edif")
        a, owner = mro_lookup(ctx.ns_policy_cls, name)
        if isinstance(a, types.FunctionType):
            return BoundMethod(a, obj, owner)
        if isinstance(a, classmethod):
            return BoundMethod(a.__func__, ctx.ns_policy_cls, owner)
        raise Unsupported("namespace attribute %s" % name)
    if isinstance(obj, (NS.NSManagerDict, NS.NSTypeDict, NS.NSNameDict)):
        return SymMethod(obj, name)
    if isinstance(obj, (SList, HeapSet, PinMap, HeapData, SAtom, SInt, SBool, PyIter, ops.SDict)):
        return SymMethod(obj, name)
    if isinstance(obj, type) and (id(obj), name) in ctx.attr_over:
        return ctx.attr_over[(id(obj), name)]
    if isinstance(obj, types.ModuleType) and (obj.__name__, name) in ctx.globals_over:
        return ctx.globals_over[(obj.__name__, name)]
    if isinstance(obj, type):
        a, owner = mro_lookup(obj, name)
        if isinstance(a, classmethod):
            return BoundMethod(a.__func__, obj, owner)
        if isinstance(a, staticmethod):
            return a.__func__
    if isinstance(obj, (str, tuple, list, dict, set, frozenset)) and not isinstance(obj, type):
        return SymMethod(obj, name)
    return getattr(obj, name)


def get_attr_ref(ctx, fr, ref, name):
    from vf.e1 import ops
    u, h = ctx.u, ctx.h
    if name == "__class__":
        return ops.type_of(ctx, fr, ref)
    groups = {}
    missing = []
    for c in sorted(ref.cands):
        a, owner = mro_lookup(ctx.real[c], name)
        if a is None:
            missing.append(c)
            continue
        groups.setdefault(id(a), [a, owner, []])[2].append(c)
    ok = u.isin_any(ref.t, [c for g in groups.values() for c in g[2]])
    raise_if(ctx, fr, NOT(ok), "AttributeError")
    if not groups:
        return None
    kinds = set()
    for a, owner, cs in groups.values():
        if type(a).__name__ == "member_descriptor":
            kinds.add("field")
        elif isinstance(a, property):
            kinds.add("prop")
        elif isinstance(a, types.FunctionType):
            kinds.add("meth")
        elif isinstance(a, staticmethod):
            kinds.add("static")
        else:
            kinds.add("const")
    if kinds == {"field"}:
        return read_field(ctx, fr, ref, name)
    if kinds == {"meth"}:
        return RefMethod(ref, name, [(a, owner, cs) for a, owner, cs in groups.values()])
    if kinds == {"static"}:
        fns = {g[0].__func__ for g in groups.values()}
        if len(fns) == 1:
            return fns.pop()
    if kinds == {"prop"}:
        res, first = None, True
        g0 = fr.g
        for a, owner, cs in groups.values():
            cond = u.isin_any(ref.t, cs)
            fr.g = AND(g0, cond)
            if live(ctx, fr) is False:
                continue
            sub = Ref(ref.t, cs)
            v = call_function(ctx, fr, a.fget, [sub], owner=owner)
            res = v if first else merge(cond, v, res)
            first = False
        fr.g = g0
        return res
    if kinds == {"const"} and len(groups) == 1:
        return list(groups.values())[0][0]
    raise Unsupported("attribute %s resolves to mixed kinds %s on %s" % (name, kinds, ref))


def read_field(ctx, fr, ref, name):
    h, u = ctx.h, ctx.u
    cands = ref.cands
    if name == "_data":
        return HeapData(ref)
    if name == "_references":
        return HeapSet(ref)
    if name == "_pins" and "Instance" in cands:
        if cands - {"Instance"}:
            raise Unsupported("_pins on mixed Instance/other reference")
        return PinMap(ref)
    sl, ok = h.read_list(ref, name)
    if sl is not None:
        raise_if(ctx, fr, NOT(ok), "AttributeError")
        return sl
    raw, kind, ok = h.read_scalar(ref, name)
    if kind is None:
        raise Unsupported("unknown field %s on %s" % (name, sorted(cands)))
    raise_if(ctx, fr, NOT(ok), "AttributeError")
    if isinstance(kind, tuple):
        return Ref(raw, kind[1])
    if kind == "bool":
        return mkbool(raw)
    if kind == "int":
        return mkint(raw)
    if kind == "enum":
        if not is_sym(raw):
            return ATOMS.vals[raw]
        return SAtom(raw, u.dir_ids)
    raise Unsupported("field kind %s" % (kind,))


def set_attr(ctx, fr, obj, name, v):
    from vf.e1 import ops
    obj = maybe_lift(ctx, obj)
    g = live(ctx, fr)
    if isinstance(obj, Ref):
        groups = {}
        for c in sorted(obj.cands):
            a, owner = mro_lookup(ctx.real[c], name)
            if a is not None:
                groups.setdefault(id(a), [a, owner, []])[2].append(c)
        if not groups:
            raise_if(ctx, fr, True, "AttributeError")
            return
        ok = ctx.u.isin_any(obj.t, [c for gg in groups.values() for c in gg[2]])
        raise_if(ctx, fr, NOT(ok), "AttributeError")
        g0 = fr.g
        for a, owner, cs in groups.values():
            if isinstance(a, property):
                if a.fset is None:
                    raise_if(ctx, fr, ctx.u.isin_any(obj.t, cs), "AttributeError")
                    continue
                fr.g = AND(g0, ctx.u.isin_any(obj.t, cs))
                if live(ctx, fr) is not False:
                    call_function(ctx, fr, a.fset, [Ref(obj.t, cs), v], owner=owner)
                fr.g = g0
            elif type(a).__name__ == "member_descriptor":
                fr.g = AND(g0, ctx.u.isin_any(obj.t, cs))
                write_field(ctx, fr, Ref(obj.t, cs), name, v)
                fr.g = g0
            else:
                raise Unsupported("assignment to class attribute %s" % name)
        return
    if isinstance(obj, Local):
        a, owner = mro_lookup(obj.cls, name)
        if isinstance(a, property) and a.fset is not None:
            call_function(ctx, fr, a.fset, [obj, v], owner=owner)
            return
        if name in obj.f and g is not True:
            obj.f[name] = merge(g, v, obj.f[name])
        else:
            obj.f[name] = v
        return
    if isinstance(obj, type):
        old = ctx.attr_over.get((id(obj), name), getattr(obj, name, None))
        ctx.attr_over[(id(obj), name)] = merge(g, v, old)
        return
    if isinstance(obj, types.ModuleType):
        key = (obj.__name__, name)
        old = ctx.globals_over.get(key, getattr(obj, name, None))
        ctx.globals_over[key] = merge(g, v, old)
        return
    raise Unsupported("set attribute %s on %r" % (name, obj))


def write_field(ctx, fr, ref, name, v):
    from vf.e1 import ops
    h, u = ctx.h, ctx.u
    g = live(ctx, fr)
    if g is False:
        return
    if name == "_data":
        ops.data_assign(ctx, fr, ref, v)
        return
    if name == "_references":
        ops.refs_assign(ctx, fr, ref, v)
        return
    if name == "_pins" and "Instance" in ref.cands:
        ops.pinmap_assign(ctx, fr, ref, v)
        return
    cs = [c for c in ref.cands if (c, name) in h.ls]
    if cs:
        if len(cs) > 1:
            raise Unsupported("list field write on mixed classes")
        sl = ops.as_slist(ctx, fr, v)
        src_home = getattr(sl, "home", None)
        sl = compact(sl)
        # re-binding the field ends earlier aliases of its list object ...
        al = ctx.__dict__.setdefault("aliases", [])
        for a in al:
            for side in (0, 1):
                c_, f_, t_ = a[side]
                if (c_, f_) == (cs[0], name):
                    a[2] = AND(a[2], NOT(AND(g, EQ(t_, ref.t))))
        over = h.write_list(g, cs[0], name, ref.t, sl)
        bound_if(ctx, fr, over, "list capacity exceeded writing %s.%s" % (cs[0], name))
        # ... and storing another object's list BY REFERENCE makes the two fields share one list
        if src_home is not None and src_home[0] != "sdict" and isinstance(v, SList) and v.home is not None:
            _, c2, f2, t2 = src_home
            al.append([(cs[0], name, ref.t), (c2, f2, t2), g])
        return
    cs = [c for c in ref.cands if (c, name) in h.sc]
    if not cs:
        raise Unsupported("unknown field %s on %s (schema change?)" % (name, sorted(ref.cands)))
    from vf.e1.heap import SCALARS
    kind = SCALARS[cs[0]][name]
    if isinstance(kind, tuple):
        raw = raw_ref(v)
    elif kind == "bool":
        if not isinstance(v, (bool, SBool)):
            # python allows anything; the model only tracks booleans here
            raw = truth_of(ctx, fr, v)
        else:
            raw = raw_bool(v)
    elif kind == "int":
        if isinstance(v, SOpt):
            raise Unsupported("optional int stored in int field")
        raw = raw_int(v)
    elif kind == "enum":
        from vf.e1.vals import to_atom
        raw = to_atom(v).t
    h.write_scalar(g, ref, name, raw)


def del_attr(ctx, fr, obj, name):
    if isinstance(obj, Ref):
        for c in sorted(obj.cands):
            a, owner = mro_lookup(ctx.real[c], name)
            if isinstance(a, property) and a.fdel is not None:
                call_function(ctx, fr, a.fdel, [obj], owner=owner)
                return
    raise Unsupported("del attribute %s" % name)
