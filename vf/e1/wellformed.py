"""Independent plain-Python oracle used only to confirm solver counterexamples on the real
objects (shares no code with the encoding): a direct reading of C01 / C02."""
import spydrnet as sdn

PAIRS = [
    (sdn.Netlist, "libraries", sdn.Library, "netlist"),
    (sdn.Library, "definitions", sdn.Definition, "library"),
    (sdn.Definition, "ports", sdn.Port, "definition"),
    (sdn.Definition, "cables", sdn.Cable, "definition"),
    (sdn.Definition, "children", sdn.Instance, "parent"),
    (sdn.Port, "pins", sdn.InnerPin, "port"),
    (sdn.Cable, "wires", sdn.Wire, "cable"),
]


def closure(objs):
    """all IR objects reachable from the given ones through the public read API"""
    seen, work = {}, list(objs)
    while work:
        o = work.pop()
        if o is None or id(o) in seen:
            continue
        seen[id(o)] = o
        for P, lst, C, back in PAIRS:
            if isinstance(o, P):
                work.extend(getattr(o, lst))
            if isinstance(o, C):
                work.append(getattr(o, back))
        if isinstance(o, sdn.Wire):
            work.extend(o.pins)
        if isinstance(o, (sdn.InnerPin, sdn.OuterPin)):
            work.append(o.wire)
        if isinstance(o, sdn.OuterPin):
            work.extend([o.instance, o.inner_pin])
        if isinstance(o, sdn.Instance):
            work.append(o.reference)
            work.extend(o.pins)
        if isinstance(o, sdn.Definition):
            work.extend(o.references)
        if isinstance(o, sdn.Netlist):
            work.append(o.top_instance)
    return list(seen.values())


def c01_problems(allobjs):
    out = []
    for P, lst, C, back in PAIRS:
        for o in allobjs:
            if isinstance(o, P):
                kids = list(getattr(o, lst))
                if len(set(map(id, kids))) != len(kids):
                    out.append("%s.%s lists an element twice" % (P.__name__, lst))
                for k in kids:
                    if getattr(k, back) is not o:
                        out.append("%s.%s lists an element whose .%s is not it" % (P.__name__, lst, back))
            if isinstance(o, C):
                p = getattr(o, back)
                if p is not None and not any(k is o for k in getattr(p, lst)):
                    out.append("%s reports .%s that does not list it" % (C.__name__, back))
    stored = set()
    for o in allobjs:
        if isinstance(o, sdn.Instance):
            stored |= {id(p) for p in o._pins.values()}
    for o in allobjs:
        if isinstance(o, sdn.Wire):
            pins = list(o.pins)
            if len(set(map(id, pins))) != len(pins):
                out.append("wire lists a pin twice")
            for p in pins:
                if p.wire is not o:
                    out.append("wire lists a pin that does not report it")
                if isinstance(p, sdn.OuterPin) and id(p) not in stored:
                    out.append("wire lists an outer pin object that no instance holds")
        if isinstance(o, sdn.InnerPin) or (isinstance(o, sdn.OuterPin) and id(o) in stored):
            w = o.wire
            if w is not None and not any(p is o for p in w.pins):
                out.append("%s reports a wire whose pin list does not contain it" % type(o).__name__)
    return out


def c02_problems(allobjs):
    out = []
    defs = [o for o in allobjs if isinstance(o, sdn.Definition)]
    for o in allobjs:
        if isinstance(o, sdn.Instance):
            for d in defs:
                if (o in d.references) != (o.reference is d):
                    out.append("instance/reference-set mismatch")
            want = []
            if o.reference is not None:
                for port in o.reference.ports:
                    want.extend(port.pins)
            have = list(o._pins.keys())
            if set(map(id, want)) != set(map(id, have)) or len(want) != len(have):
                out.append("instance carries %d outer pins for %d inner pins of its definition" % (
                    len(have), len(want)))
            for ip, op in o._pins.items():
                if op.instance is not o or op.inner_pin is not ip:
                    out.append("outer pin does not name its instance / inner pin")
    return out


def problems(objs, check):
    allobjs = closure(list(objs.values()))
    which = check.get("group", "")
    out = []
    if which.startswith(("I1", "I2", "types")) or not which:
        out += c01_problems(allobjs)
    if which.startswith("I3") or not which:
        out += c02_problems(allobjs)
    if which.startswith("I4"):
        out += c10_problems(allobjs)
    return out


# ------------------------------------------------------------------------------------------------
# C19 oracle: a listener that merely replays announcements must end up with an exact mirror
from spydrnet.callback.callback_listener import CallbackListener


def _pin_key(pin):
    if isinstance(pin, sdn.OuterPin):
        return ("outer", id(pin.instance), id(pin.inner_pin))
    return ("inner", id(pin))


class MirrorListener(CallbackListener):
    ADD = {"cable_add_wire": "cable", "definition_add_port": "definition",
           "definition_add_child": "parent", "definition_add_cable": "definition",
           "library_add_definition": "library", "netlist_add_library": "netlist",
           "port_add_pin": "port"}
    REMOVE = {"cable_remove_wire": "cable", "definition_remove_port": "definition",
              "definition_remove_child": "parent", "definition_remove_cable": "definition",
              "library_remove_definition": "library", "netlist_remove_library": "netlist",
              "port_remove_pin": "port"}

    def __init__(self, allobjs):
        super().__init__()
        self.events = []
        self.not_before = []
        self.parent = {}
        self.wire_of = {}
        self.reference = {}
        self.top = {}
        self.data = {}
        for o in allobjs:
            for P, lst, C, back in PAIRS:
                if isinstance(o, C):
                    self.parent[id(o)] = id(getattr(o, back)) if getattr(o, back) is not None else None
            if isinstance(o, sdn.InnerPin) and o.wire is not None:
                self.wire_of[_pin_key(o)] = id(o.wire)
            if isinstance(o, sdn.Instance):
                self.reference[id(o)] = id(o.reference) if o.reference is not None else None
                for op in o._pins.values():
                    if op.wire is not None:
                        self.wire_of[_pin_key(op)] = id(op.wire)
            if isinstance(o, sdn.Netlist):
                self.top[id(o)] = id(o.top_instance) if o.top_instance is not None else None
            if hasattr(o, "_data"):
                self.data[id(o)] = dict(o._data)

    def _ev(self, kind, *args):
        self.events.append((kind, args))


def _mk(kind):
    def handler(self, *args):
        self.events.append(kind)
        if kind in self.ADD:
            back = self.ADD[kind]
            if getattr(args[1], back) is args[0]:
                self.not_before.append(kind)
            self.parent[id(args[1])] = id(args[0])
        elif kind in self.REMOVE:
            back = self.REMOVE[kind]
            if getattr(args[1], back) is not args[0]:
                self.not_before.append(kind)
            self.parent[id(args[1])] = None
        elif kind == "wire_connect_pin":
            pin = args[1]
            if isinstance(pin, sdn.OuterPin) and pin.instance is not None and pin.inner_pin in pin.instance.pins:
                pin = pin.instance.pins[pin.inner_pin]      # the pin the announcement identifies
            if pin is not None and pin.wire is args[0]:
                self.not_before.append(kind)
            if args[1] is not None:
                self.wire_of[_pin_key(args[1])] = id(args[0])
        elif kind == "wire_disconnect_pin":
            self.wire_of.pop(_pin_key(args[1]), None)
        elif kind == "instance_reference":
            self.reference[id(args[0])] = id(args[1]) if args[1] is not None else None
        elif kind == "netlist_top_instance":
            self.top[id(args[0])] = id(args[1]) if args[1] is not None else None
        elif kind == "dictionary_set":
            self.data.setdefault(id(args[0]), {})[args[1]] = args[2]
        elif kind in ("dictionary_delete", "dictionary_pop"):
            self.data.setdefault(id(args[0]), {}).pop(args[1], None)
    return handler


for _k in list(MirrorListener.ADD) + list(MirrorListener.REMOVE) + [
        "wire_connect_pin", "wire_disconnect_pin", "instance_reference", "netlist_top_instance",
        "dictionary_set", "dictionary_delete", "dictionary_pop", "create_netlist", "create_library",
        "create_definition", "create_port", "create_cable", "create_instance"]:
    setattr(MirrorListener, _k, _mk(_k))


def mirror_problems(lst, allobjs, skip_outer=False):
    out = []
    for o in allobjs:
        for P, l, C, back in PAIRS:
            if isinstance(o, C):
                real = id(getattr(o, back)) if getattr(o, back) is not None else None
                if lst.parent.get(id(o)) != real:
                    out.append("mirror thinks %s has another %s" % (C.__name__, back))
        if isinstance(o, sdn.InnerPin):
            real = id(o.wire) if o.wire is not None else None
            if lst.wire_of.get(_pin_key(o)) != real:
                out.append("mirror disagrees on the wire of an inner pin")
        if isinstance(o, sdn.Instance):
            real = id(o.reference) if o.reference is not None else None
            if lst.reference.get(id(o)) != real:
                out.append("mirror disagrees on an instance's reference")
            if not skip_outer:
                for op in o._pins.values():
                    real = id(op.wire) if op.wire is not None else None
                    if lst.wire_of.get(_pin_key(op)) != real:
                        out.append("mirror disagrees on the wire of an outer pin")
        if isinstance(o, sdn.Netlist):
            real = id(o.top_instance) if o.top_instance is not None else None
            if lst.top.get(id(o)) != real:
                out.append("mirror disagrees on the top instance")
        if hasattr(o, "_data") and lst.data.get(id(o), {}) != dict(o._data):
            out.append("mirror disagrees on element data")
    return out


# ------------------------------------------------------------------------------------------------
# C10 oracle: the naming plug-in's tables against a linear scan of the real children
def c10_problems(allobjs):
    from spydrnet.plugins import namespace_manager as nm
    from spydrnet.global_state import global_service as gs
    out = []
    scopes = {sdn.Netlist: [("libraries", sdn.Library)], sdn.Library: [("definitions", sdn.Definition)],
              sdn.Definition: [("ports", sdn.Port), ("cables", sdn.Cable), ("children", sdn.Instance)]}
    for o in allobjs:
        for P, kids in scopes.items():
            if not isinstance(o, P):
                continue
            ns = nm.namespaces.get(o)
            for lst, C in kids:
                children = list(getattr(o, lst))
                if ns is not None:
                    for table, key, norm in ((getattr(ns, "namespaces", {}), ".NAME", lambda x: x),
                                             (getattr(ns, "edif_namespaces", {}), "EDIF.identifier",
                                              lambda x: x.lower())):
                        tab = table.get(C, {})
                        for name, child in tab.items():
                            if not any(child is c for c in children) or key not in child or \
                                    norm(child[key]) != name:
                                out.append("ghost entry %r (%s) in the %s table of a %s" % (
                                    name, key, C.__name__, P.__name__))
                        if table is getattr(ns, "edif_namespaces", None) or key == ".NAME":
                            for c in children:
                                if key in c and tab.get(norm(c[key])) is not c and (
                                        key == ".NAME" or hasattr(ns, "edif_namespaces")):
                                    out.append("child with %s=%r missing from the table" % (key, c[key]))
                # exact lookup must agree with the scan
                for key in (".NAME", "EDIF.identifier"):
                    for c in children:
                        if key in c:
                            got = gs.lookup(o, C, key, c[key])
                            scan = [x for x in children if key in x and x[key] == c[key]]
                            if got is not (scan[0] if scan else None) and ns is not None:
                                out.append("lookup(%s=%r) disagrees with a scan" % (key, c[key]))
    return out


# ------------------------------------------------------------------------------------------------
# C07 oracle: faithful, self-contained, independent copy (plain recursive comparison)
def clone_problems(root, copy, whole_netlist):
    out = []
    pairs = {}

    def same(a, b, path):
        if a is None or b is None:
            if a is not b:
                out.append("%s: one side is None" % path)
            return
        if id(a) in pairs:
            if pairs[id(a)] is not b:
                out.append("%s: one original corresponds to two copies" % path)
            return
        pairs[id(a)] = b
        if a is b:
            out.append("%s: the copy shares this %s with the original" % (path, type(a).__name__))
            return
        if type(a) is not type(b):
            out.append("%s: copy is a %s.%s, original a %s.%s" % (
                path, type(b).__module__, type(b).__name__, type(a).__module__, type(a).__name__))
            return
        if hasattr(a, "_data") and dict(a._data) != dict(b._data):
            out.append("%s: data differ" % path)
        for P, lst, C, back in PAIRS:
            if isinstance(a, P):
                la, lb = list(getattr(a, lst)), list(getattr(b, lst))
                if len(la) != len(lb):
                    out.append("%s.%s: %d vs %d elements" % (path, lst, len(la), len(lb)))
                for k, (x, y) in enumerate(zip(la, lb)):
                    same(x, y, "%s.%s[%d]" % (path, lst, k))
                    if getattr(y, back) is not b:
                        out.append("%s.%s[%d]: copy does not name the copied parent" % (path, lst, k))
        if isinstance(a, (sdn.Port, sdn.Cable)):
            for f in ("is_downto", "is_scalar", "lower_index"):
                if getattr(a, f) != getattr(b, f):
                    out.append("%s.%s differs" % (path, f))
            # the stored scalar flag is hidden by the is_scalar property while the bundle has several
            # items, and shows as soon as both are trimmed to one item: compare what is stored
            if a._is_scalar != b._is_scalar:
                out.append("%s: stored scalar/array flag differs (original %s, copy %s): after trimming both to "
                           "one item they report different array-ness" % (path, a._is_scalar, b._is_scalar))
        if isinstance(a, sdn.Port) and a.direction != b.direction:
            out.append("%s.direction differs" % path)
        if isinstance(a, sdn.Instance):
            if whole_netlist:
                same(a.reference, b.reference, path + ".reference")
            elif a.reference is not b.reference and id(a.reference) not in pairs:
                out.append("%s.reference changed" % path)
            if len(a._pins) != len(b._pins):
                out.append("%s: %d vs %d outer pins" % (path, len(a._pins), len(b._pins)))
    same(root, copy, type(root).__name__)
    # connections: compared through the pairing built above
    for ida, b in list(pairs.items()):
        pass
    if isinstance(root, sdn.Netlist):
        same(root.top_instance, copy.top_instance, "Netlist.top_instance")
    copies = closure([copy])
    orig_ids = set(pairs.keys())
    if whole_netlist:
        for o in copies:
            if id(o) in orig_ids:
                out.append("an element of the original (%s) is reachable from the copy" % type(o).__name__)
                break
    return out
