"""Independent plain-Python oracle used only to confirm solver counterexamples on the real
objects (shares no code with the encoding): a direct reading of C01 / C02."""
import spydrnet as sdn

PAIRS = [
    (sdn.Netlist, "libraries", sdn.Library, "netlist"),
    (sdn.Library, "definitions", sdn.Definition, "library"),
    (sdn.Definition, "ports", sdn.Port, "definition"),
    (sdn.Definition, "cables", sdn.Cable, "definition"),
    (sdn.Definition, "children", sdn.Instance, "parent"),
    (sdn.Port, "pins", sdn.InnerPin, "port"),
    (sdn.Cable, "wires", sdn.Wire, "cable"),
]


def closure(objs):
    """all IR objects reachable from the given ones through the public read API"""
    seen, work = {}, list(objs)
    while work:
        o = work.pop()
        if o is None or id(o) in seen:
            continue
        seen[id(o)] = o
        for P, lst, C, back in PAIRS:
            if isinstance(o, P):
                work.extend(getattr(o, lst))
            if isinstance(o, C):
                work.append(getattr(o, back))
        if isinstance(o, sdn.Wire):
            work.extend(o.pins)
        if isinstance(o, (sdn.InnerPin, sdn.OuterPin)):
            work.append(o.wire)
        if isinstance(o, sdn.OuterPin):
            work.extend([o.instance, o.inner_pin])
        if isinstance(o, sdn.Instance):
            work.append(o.reference)
            work.extend(o.pins)
        if isinstance(o, sdn.Definition):
            work.extend(o.references)
        if isinstance(o, sdn.Netlist):
            work.append(o.top_instance)
    return list(seen.values())


def c01_problems(allobjs):
    out = []
    for P, lst, C, back in PAIRS:
        for o in allobjs:
            if isinstance(o, P):
                kids = list(getattr(o, lst))
                if len(set(map(id, kids))) != len(kids):
                    out.append("%s.%s lists an element twice" % (P.__name__, lst))
                for k in kids:
                    if getattr(k, back) is not o:
                        out.append("%s.%s lists an element whose .%s is not it" % (P.__name__, lst, back))
            if isinstance(o, C):
                p = getattr(o, back)
                if p is not None and not any(k is o for k in getattr(p, lst)):
                    out.append("%s reports .%s that does not list it" % (C.__name__, back))
    stored = set()
    for o in allobjs:
        if isinstance(o, sdn.Instance):
            stored |= {id(p) for p in o._pins.values()}
    for o in allobjs:
        if isinstance(o, sdn.Wire):
            pins = list(o.pins)
            if len(set(map(id, pins))) != len(pins):
                out.append("wire lists a pin twice")
            for p in pins:
                if p.wire is not o:
                    out.append("wire lists a pin that does not report it")
                if isinstance(p, sdn.OuterPin) and id(p) not in stored:
                    out.append("wire lists an outer pin object that no instance holds")
        if isinstance(o, sdn.InnerPin) or (isinstance(o, sdn.OuterPin) and id(o) in stored):
            w = o.wire
            if w is not None and not any(p is o for p in w.pins):
                out.append("%s reports a wire whose pin list does not contain it" % type(o).__name__)
    return out


def c02_problems(allobjs):
    out = []
    defs = [o for o in allobjs if isinstance(o, sdn.Definition)]
    for o in allobjs:
        if isinstance(o, sdn.Instance):
            for d in defs:
                if (o in d.references) != (o.reference is d):
                    out.append("instance/reference-set mismatch")
            want = []
            if o.reference is not None:
                for port in o.reference.ports:
                    want.extend(port.pins)
            have = list(o._pins.keys())
            if set(map(id, want)) != set(map(id, have)) or len(want) != len(have):
                out.append("instance carries %d outer pins for %d inner pins of its definition" % (
                    len(have), len(want)))
            for ip, op in o._pins.items():
                if op.instance is not o or op.inner_pin is not ip:
                    out.append("outer pin does not name its instance / inner pin")
    return out


def problems(objs, check):
    allobjs = closure(list(objs.values()))
    which = check.get("group", "")
    out = []
    if which.startswith(("I1", "I2", "types")) or not which:
        out += c01_problems(allobjs)
    if which.startswith("I3") or not which:
        out += c02_problems(allobjs)
    return out
