"""C20: the comparer on two netlists in one universe (containment shape concrete, links symbolic)."""
import time
import traceback

import z3
from vf.core import result, DISCHARGED, VIOLATED, INCONCLUSIVE, VACUOUS, ERROR, KNOWN, fn_ident, findings_for
from vf.e1.sym import (Ref, SAtom, ATOMS, NONE_ID, is_sym, AND, OR, NOT, EQ, NE, LT, B, IMPLIES, Unsupported,
                       ite_chain)
from vf.e1.heap import Universe, Heap, CLASSES, SCALARS, LISTS, FCE
from vf.e1.vals import Local
from vf.e1.interp import Ctx, Frame, call_function
from vf.e1 import mutators as M, spec, replay

LIVE = dict(Netlist=2, Library=2, Definition=4, Port=2, Cable=2, Wire=4, Instance=4, InnerPin=4, OuterPin=8)
# netlist A = even half, netlist B = mirrored half
MU = {"Netlist": {0: 1}, "Library": {0: 1}, "Definition": {0: 2, 1: 3}, "Port": {0: 1}, "Cable": {0: 1},
      "Wire": {0: 2, 1: 3}, "Instance": {0: 2, 1: 3}, "InnerPin": {0: 2, 1: 3},
      "OuterPin": {0: 4, 1: 5, 2: 6, 3: 7}}


CONFIGS = {
    "base": dict(per_side=dict(Netlist=1, Library=1, Definition=2, Port=1, Cable=1, Wire=2, Instance=2,
                               InnerPin=2, OuterPin=4)),
    # the top holds TWO instances of the two-pin cell (a net may then sit on the right pin of the wrong instance)
    "two-children": dict(per_side=dict(Netlist=1, Library=1, Definition=2, Port=1, Cable=1, Wire=2, Instance=3,
                                       InnerPin=2, OuterPin=4)),
    # two libraries holding same-shaped cells + a third definition with the instance
    "two-libs": dict(per_side=dict(Netlist=1, Library=2, Definition=3, Port=2, Cable=0, Wire=0, Instance=2,
                                   InnerPin=2, OuterPin=2)),
}


def configure(cfg):
    global LIVE, MU
    ps = CONFIGS[cfg]["per_side"]
    LIVE = {c: 2 * n for c, n in ps.items()}
    MU = {c: {i: i + n for i in range(n)} for c, n in ps.items()}


def two_libs_shape():
    return {("Netlist", 0, "_libraries"): [0, 1], ("Library", 0, "_definitions"): [0, 2],
            ("Library", 1, "_definitions"): [1], ("Definition", 0, "_ports"): [0], ("Port", 0, "_pins"): [0],
            ("Definition", 1, "_ports"): [1], ("Port", 1, "_pins"): [1], ("Definition", 2, "_children"): [0]}


def base_shape(pins=2, wires=2, children=1):
    sh = {("Netlist", 0, "_libraries"): [0], ("Library", 0, "_definitions"): [0, 1],
          ("Definition", 0, "_ports"): [0], ("Port", 0, "_pins"): list(range(pins)),
          ("Definition", 1, "_cables"): [0], ("Cable", 0, "_wires"): list(range(wires)),
          ("Definition", 1, "_children"): list(range(children))}
    return sh


def mirror_shape(sh):
    out = dict(sh)
    for (P, p, lst), kids in sh.items():
        C = [c for (PP, l, c, b) in __import__("vf.e1.heap", fromlist=["OWNERSHIP"]).OWNERSHIP
             if PP == P and l == lst][0]
        out[(P, MU[P][p], lst)] = [MU[C][k] for k in kids]
    return out


def mu_term(u, t, cls_list):
    """image of a symbolic A-side reference under the mirror map"""
    keys, vals = [], []
    for c in cls_list:
        for a, b in MU[c].items():
            keys.append(u.gid(c, a))
            vals.append(u.gid(c, b))
    return ite_chain(t, keys, vals, NONE_ID)


def iso_constraints(h, skip=()):
    """B is position-wise the same as A (links mirrored, attributes/data equal); `skip` names
    (class, field) pairs left unconstrained so that a difference can be planted there"""
    u = h.u
    cs = []
    for c in CLASSES:
        for a, b in MU[c].items():
            for f, kind in SCALARS[c].items():
                if (c, f) in skip:
                    continue
                ta, tb = h.sc[(c, f)][a], h.sc[(c, f)][b]
                if isinstance(kind, tuple):
                    cs.append(EQ(tb, mu_term(u, ta, kind[1])))
                else:
                    cs.append(EQ(ta, tb))
            for f, elc in LISTS.get(c, {}).items():
                if (c, f) in skip:
                    continue
                (la, ea), (lb, eb) = h.ls[(c, f)][a], h.ls[(c, f)][b]
                cs.append(EQ(la, lb))
                for k in range(len(ea)):
                    cs.append(IMPLIES(LT(k, la), EQ(eb[k], mu_term(u, ea[k], elc))))
            if c in FCE and (c, "_data") not in skip:
                for k in range(len(u.keys)):
                    (pa, va), (pb, vb) = h.data[c][a][k], h.data[c][b][k]
                    cs.append(AND(EQ(pa, pb), IMPLIES(pa, EQ(va, vb))))
    # both netlists are self-contained: links of A stay inside A, links of B inside B
    for side in (0, 1):
        inside = {c: ([a for a in MU[c]] if side == 0 else [b for b in MU[c].values()]) for c in CLASSES}
        for c in CLASSES:
            for x in inside[c]:
                for f, kind in SCALARS[c].items():
                    if isinstance(kind, tuple):
                        t = h.sc[(c, f)][x]
                        cs.append(OR(EQ(t, NONE_ID), *[EQ(t, u.gid(k, y)) for k in kind[1] for y in inside[k]]))
                for f, elc in LISTS.get(c, {}).items():
                    ln, el = h.ls[(c, f)][x]
                    for k in range(len(el)):
                        cs.append(IMPLIES(LT(k, ln), OR(*[EQ(el[k], u.gid(kc, y)) for kc in elc for y in inside[kc]])))
        for i in inside["Instance"]:
            for p in range(u.n["InnerPin"]):
                t = h.pinmap[i][p]
                cs.append(OR(EQ(t, NONE_ID), *[EQ(t, u.gid("OuterPin", y)) for y in inside["OuterPin"]]))
    # nets are local to their definition: a wire of definition d joins only pins of d's ports and of
    # d's children (a standalone top instance's pins are not wired to anything)
    for w in range(u.n["Wire"]):
        ln, el = h.ls[("Wire", "_pins")][w]
        cab = h.sc[("Wire", "_cable")][w]
        d_of_w = ite_chain(cab, u.ids("Cable"), h.sc[("Cable", "_definition")], NONE_ID)
        for k in range(len(el)):
            e = el[k]
            port = ite_chain(e, u.ids("InnerPin"), h.sc[("InnerPin", "_port")], NONE_ID)
            d_in = ite_chain(port, u.ids("Port"), h.sc[("Port", "_definition")], NONE_ID)
            inst = ite_chain(e, u.ids("OuterPin"), h.sc[("OuterPin", "_instance")], NONE_ID)
            d_out = ite_chain(inst, u.ids("Instance"), h.sc[("Instance", "_parent")], NONE_ID)
            owner = ite_chain_cls(u, e, d_in, d_out)
            cs.append(IMPLIES(LT(k, ln), AND(NE(d_of_w, NONE_ID), EQ(owner, d_of_w))))
    # outer pins: A's instances hold A-side outer pin slots (B mirrored by Inv + pin maps)
    for i in MU["Instance"]:
        for p in range(u.n["InnerPin"]):
            t = h.pinmap[i][p]
            cs.append(OR(EQ(t, NONE_ID), *[EQ(t, u.gid("OuterPin", x)) for x in MU["OuterPin"]]))
            if p in MU["InnerPin"] and ("Instance", "_pins") not in skip:
                tb = h.pinmap[MU["Instance"][i]][MU["InnerPin"][p]]
                cs.append(EQ(tb, mu_term(u, t, ("OuterPin",))))
    return [x for x in cs if x is not True]


def ite_chain_cls(u, e, d_in, d_out):
    from vf.e1.sym import ITE
    return ITE(u.isin(e, "InnerPin"), d_in, d_out)


def named_unique(h):
    """every first-class element is named; sibling names are distinct per scope (A side; B by iso)"""
    u = h.u
    kn = u.keys.index(".NAME")
    cs = []
    for c in FCE:
        for i in range(u.live.get(c, 0)):
            cs.append(h.data[c][i][kn][0])
    from vf.e1.nsmodel import CHILD_TYPES, BACK
    for P, kids in CHILD_TYPES.items():
        for T in kids:
            for i in range(u.live.get(T, 0)):
                for j in range(i):
                    same_parent = AND(EQ(h.sc[(T, BACK[T])][i], h.sc[(T, BACK[T])][j]),
                                      NE(h.sc[(T, BACK[T])][i], NONE_ID))
                    cs.append(IMPLIES(same_parent, NE(h.data[T][i][kn][1], h.data[T][j][kn][1])))
    return [x for x in cs if x is not True]


DIFFS = {
    # name: (fields left free, predicate builder(h) -> the planted difference)
    "port-direction": ((("Port", "_direction"),),
                       lambda h: NE(h.sc[("Port", "_direction")][0], h.sc[("Port", "_direction")][1])),
    "instance-reference": ((("Instance", "_reference"), ("Instance", "_pins"), ("OuterPin", "_inner_pin"),
                            ("OuterPin", "_instance"), ("OuterPin", "_wire")),
                           lambda h: NE(h.sc[("Instance", "_reference")][MU["Instance"][0]],
                                        mu_term(h.u, h.sc[("Instance", "_reference")][0], ("Definition",)))),
    "net-touches-another-bit": ((("Wire", "_pins"), ("InnerPin", "_wire"), ("OuterPin", "_wire")),
                                lambda h: wire_diff(h)),
    "element-name": ((("Cable", "_data"),),
                     lambda h: NE(h.data["Cable"][0][h.u.keys.index(".NAME")][1],
                                  h.data["Cable"][1][h.u.keys.index(".NAME")][1])),
}


def wire_diff(h):
    """same number of pins on every net, but some position holds a different pin"""
    u = h.u
    same_len, differs = [], []
    for a, b in MU["Wire"].items():
        (la, ea), (lb, eb) = h.ls[("Wire", "_pins")][a], h.ls[("Wire", "_pins")][b]
        same_len.append(EQ(la, lb))
        for k in range(len(ea)):
            differs.append(AND(LT(k, la), NE(eb[k], mu_term(u, ea[k], ("InnerPin", "OuterPin")))))
    return AND(AND(*same_len), OR(*differs))


SHAPE_DIFFS = {   # B's shape differs from A's mirror in one count
    "port-width": dict(b_pins=1), "cable-width": dict(b_wires=1), "instance-count": dict(b_children=0),
}


def compare_job(scenario, tier, timeout_ms=300000, cube=None):
    from spydrnet.compare.compare_netlists import Comparer
    t0 = time.time()
    name = "C20/Comparer.compare/%s" % scenario
    cfg = scenario.split("@")[1] if "@" in scenario else "base"
    configure(cfg)
    scenario = scenario.split("@")[0]
    u = Universe(LIVE, {}, 2, keys=(".NAME",), atoms=("a", "b", "c"))
    shA = two_libs_shape() if cfg == "two-libs" else base_shape(children=2 if cfg == "two-children" else 1)
    sh = mirror_shape(shA)
    if scenario in SHAPE_DIFFS:
        d = SHAPE_DIFFS[scenario]
        if "b_pins" in d:
            sh[("Port", 1, "_pins")] = [2, 3][:d["b_pins"]]
        if "b_wires" in d:
            sh[("Cable", 1, "_wires")] = [2, 3][:d["b_wires"]]
        if "b_children" in d:
            sh[("Definition", 3, "_children")] = []
    pre = Heap.symbolic(u).apply_shape(sh)
    if cube:
        # further cube split: some link fields are fixed by the job (the solver decides the rest)
        for key, val in cube.items():
            c, i, f = key.split("/")
            if f.startswith("."):
                pre.data[c][int(i)][u.keys.index(f)] = (True, ATOMS.intern(val))
                continue
            pre.sc[(c, f)][int(i)] = NONE_ID if val is None else u.gid(val[0], val[1])
        name += "{%s}" % ",".join("%s=%s" % (k, "None" if v is None else (v if isinstance(v, str) else "%s%d" % tuple(v))) for k, v in sorted(cube.items()))
    heap = pre.copy()
    ctx = Ctx(heap, M.REAL)
    M.listeners_none(ctx)
    ctx.globals_over[("spydrnet.global_state.global_service", "_registered_lookups")] = {}
    ctx.loop_bound = 8
    fr = Frame(None, True, {})
    skip = DIFFS[scenario][0] if scenario in DIFFS else ()
    if scenario in SHAPE_DIFFS:
        skip = (("Wire", "_pins"), ("InnerPin", "_wire"), ("OuterPin", "_wire"), ("Instance", "_reference"),
                ("Instance", "_pins"), ("Port", "_pins"), ("Cable", "_wires"), ("Definition", "_children"),
                ("InnerPin", "_port"), ("Wire", "_cable"), ("Instance", "_parent"),
                ("OuterPin", "_instance"), ("OuterPin", "_inner_pin"))
    A = pre.type_constraints() + spec.inv_all(pre) + iso_constraints(pre, skip) + named_unique(pre)
    if scenario in DIFFS:
        A.append(DIFFS[scenario][1](pre))
    A = [B(a) for a in A if a is not True]
    # (no per-call feasibility pruning here: the query functions are called dozens of times)
    cmp_obj = Local(Comparer, {})
    try:
        # the comparer is built by its real __init__ (whatever per-run state it keeps starts as the code says)
        call_function(ctx, fr, Comparer.__init__, [cmp_obj, Ref(u.gid("Netlist", 0), ("Netlist",)),
                                                   Ref(u.gid("Netlist", 1), ("Netlist",))], owner=Comparer)
        call_function(ctx, fr, Comparer.compare, [cmp_obj], owner=Comparer)
    except Unsupported as e:
        return [result(name, INCONCLUSIVE, "E1/symheap", detail="Unsupported: %s" % e, wall_s=time.time() - t0)]
    funcs = sorted(fn_ident(f) for f in ctx.funcs_seen)
    bounds = dict(u.describe(), scenario=scenario, shape={"%s/%d/%s" % k: v for k, v in sh.items()})
    tw = {"pre_sat": M.check(A, True, 60000)[0]}
    if tw["pre_sat"] != "sat":
        return [result(name, VACUOUS if tw["pre_sat"] == "unsat" else INCONCLUSIVE, "E1/symheap", twins=tw,
                       detail="scenario precondition not satisfiable", bounds=bounds)]
    accept = scenario == "faithful-copy"
    goal = AND(NOT(ctx.bound), ctx.exc) if accept else AND(NOT(ctx.bound), NOT(ctx.exc))
    known = findings_for("C20", name)
    excl, hits, nq, ts = [], [], 0, 0.0
    status, detail, rp = None, "", None
    for rnd in range(4):
        st, dt, mdl = M.check(A + excl, goal, timeout_ms)
        nq += 1
        ts += dt
        if st == "unsat":
            status, detail = DISCHARGED, "unsat" + (" after excluding known finding(s)" if excl else "")
            break
        if st != "sat":
            status, detail = INCONCLUSIVE, "solver answered %s after %.0fs" % (st, dt)
            break
        state = replay.heap_to_state(pre, mdl)
        rp = {"engine": "E1", "property": "C20", "obligation": name, "kind": "compare", "state": state,
              "accept": accept, "listeners": "none", "call": {"scenario": scenario}}
        try:
            viol, txt = replay_compare(rp)
        except Exception:
            viol, txt = False, "replay crashed: " + traceback.format_exc()[-500:]
        if not viol:
            status, detail = ERROR, "counterexample did not reproduce on the real code: " + txt
            break
        m = None
        for f in known:
            m = f
            break
        if m is not None and not hits:
            hits.append((m, txt))
            pred = eval(m["match"], {"h": pre, "u": u, "AND": AND, "OR": OR, "NOT": NOT, "EQ": EQ, "NE": NE,
                                     "is_outer": lambda t: u.isin(t, "OuterPin"), "LT": LT})
            excl.append(B(NOT(pred)))
            continue
        status, detail = VIOLATED, txt
        break
    out = []
    for f, txt in hits:
        out.append(result(name + "#" + f["id"], KNOWN, "E1/symheap", finding=f["id"],
                          detail="%s (e.g. %s)" % (f["what"], txt[:200]), queries=1, bounds=bounds))
    out.append(result(name, status, "E1/symheap", queries=nq + 1, solver_s=ts, twins=tw, bounds=bounds,
                      functions=funcs, detail=detail, replay=rp if status == VIOLATED else None, paths=1,
                      wall_s=time.time() - t0))
    return out


def replay_compare(rp):
    from spydrnet.compare.compare_netlists import Comparer
    with replay.listener_config("none"):
        objs = replay.build(rp["state"])
        built, _ = replay.abstract(objs)
        diffs = replay.states_equal(rp["state"], built)
        if diffs:
            return False, "built state differs from the model: " + "; ".join(diffs[:3])
        u_base = rp["state"]["universe"]["base"]
        nets = sorted(int(g) for g, o in rp["state"]["objects"].items() if o["cls"] == "Netlist")
        a, b = objs[nets[0]], objs[nets[1]]
        raised = None
        try:
            Comparer(a, b).compare()
        except BaseException as e:
            raised = e
        how = "raised %s: %s" % (type(raised).__name__, str(raised)[:100]) if raised else "accepted the pair"
        if rp["accept"]:
            return raised is not None, "Comparer on a faithful copy " + how
        return raised is None, "Comparer on a copy with one planted difference (%s) %s" % (
            rp["call"]["scenario"], how)
