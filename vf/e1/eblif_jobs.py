"""E1 step lemmas on the EBLIF reader (C18)."""
import time
import traceback

import z3
from vf.core import result, DISCHARGED, VIOLATED, INCONCLUSIVE, VACUOUS, ERROR, fn_ident
from vf.e1.sym import (Ref, NONE_ID, AND, OR, NOT, EQ, NE, LT, B, IMPLIES, Unsupported, ite_chain)
from vf.e1.heap import Universe, Heap
from vf.e1.vals import Local
from vf.e1.interp import Ctx, Frame, call_function
from vf.e1 import mutators as M, spec, replay


def merge_wires_job(tier, timeout_ms=300000):
    """.conn: EBLIFParser.merge_wires(w1, w2) from an arbitrary Inv-state: afterwards a new wire carries exactly
    the union of both pin sets, both old wires are out of their cables and empty, every other net is untouched."""
    from spydrnet.parsers.eblif.eblif_parser import EBLIFParser
    t0 = time.time()
    name = "C18/EBLIFParser.merge_wires"
    K = 3
    u = Universe(dict(Netlist=0, Library=0, Definition=2, Port=1, Cable=2, Wire=3, Instance=1, InnerPin=2, OuterPin=2),
                 dict(Cable=1, Wire=1), K, atoms=("n", "m"))
    shape = {("Definition", 0, "_cables"): [0, 1], ("Cable", 0, "_wires"): [0, 1], ("Cable", 1, "_wires"): [2],
             ("Definition", 0, "_ports"): [0], ("Port", 0, "_pins"): [0, 1], ("Definition", 0, "_children"): [0]}
    pre = Heap.symbolic(u).apply_shape(shape)
    heap = pre.copy()
    ctx = Ctx(heap, M.REAL)
    M.listeners_none(ctx)
    fr = Frame(None, True, {})
    w1 = Ref(z3.Int("wire_one"), ("Wire",))
    w2 = Ref(z3.Int("wire_two"), ("Wire",))
    kn = u.keys.index(".NAME")
    A = pre.type_constraints() + spec.inv_all(pre)
    A += [u.isin(w1.t, "Wire"), u.isin(w2.t, "Wire"), NE(w1.t, w2.t),
          LT(w1.t, u.base["Wire"] + 3), LT(w2.t, u.base["Wire"] + 3),
          pre.data["Cable"][0][kn][0], pre.data["Cable"][1][kn][0]]
    # the instance's pins belong to definition 1's... keep it simple: instance references the model itself is excluded
    A.append(NE(pre.sc[("Instance", "_reference")][0], u.gid("Definition", 0)))
    A = [B(a) for a in A if a is not True]
    selfv = Local(EBLIFParser, {"current_model": Ref(u.gid("Definition", 0), ("Definition",))})
    try:
        call_function(ctx, fr, EBLIFParser.merge_wires, [selfv, w1, w2], owner=EBLIFParser)
    except Unsupported as e:
        return [result(name, INCONCLUSIVE, "E1/symheap", detail="Unsupported: %s" % e, wall_s=time.time() - t0)]
    post = heap
    new_w = u.base["Wire"] + 3          # the only fresh wire slot
    (nl, nel) = post.ls[("Wire", "_pins")][3]
    goals = {}
    union, gone, others = [], [], []
    pin_classes = ("InnerPin", "OuterPin")
    for c in pin_classes:
        for p in range(u.live.get(c, 0)):
            g = u.gid(c, p)
            was = pre.sc[(c, "_wire")][p]
            on_either = OR(EQ(was, w1.t), EQ(was, w2.t))
            now = post.sc[(c, "_wire")][p]
            listed = OR(*[AND(LT(k, nl), EQ(nel[k], g)) for k in range(len(nel))])
            stored = True if c == "InnerPin" else spec.stored(pre, p)
            union.append(IMPLIES(AND(on_either, stored), AND(EQ(now, new_w), listed)))
            union.append(IMPLIES(listed, on_either))
            others.append(IMPLIES(AND(NOT(on_either), stored), EQ(now, was)))
    goals["new-net-carries-exactly-the-union-of-both-pin-sets"] = union
    for w in range(3):
        g = u.gid("Wire", w)
        is_old = OR(EQ(w1.t, g), EQ(w2.t, g))
        (pl, pel) = post.ls[("Wire", "_pins")][w]
        (ol, oel) = pre.ls[("Wire", "_pins")][w]
        gone.append(IMPLIES(is_old, AND(EQ(post.sc[("Wire", "_cable")][w], NONE_ID), EQ(pl, 0))))
        others.append(IMPLIES(NOT(is_old), AND(EQ(pl, ol), EQ(post.sc[("Wire", "_cable")][w], pre.sc[("Wire", "_cable")][w]),
                                               *[IMPLIES(LT(k, ol), EQ(pel[k], oel[k])) for k in range(len(oel))])))
    goals["both-old-wires-are-gone"] = gone
    goals["other-nets-untouched"] = others
    goals["new-net-is-a-cable-of-the-model"] = [
        EQ(post.sc[("Wire", "_cable")][3], u.gid("Cable", 2)),
        EQ(post.sc[("Cable", "_definition")][2], u.gid("Definition", 0))]
    for g, c in spec.inv_groups(post).items():
        if c and g.split(":")[0] in ("I1", "I2", "types"):
            goals["well-formed-afterwards/" + g] = c
    ok = [B(NOT(ctx.bound)), B(NOT(ctx.exc))]
    funcs = sorted(fn_ident(f) for f in ctx.funcs_seen)
    bounds = dict(u.describe(), shape={"%s/%d/%s" % k: v for k, v in shape.items()})
    tw = {"pre_sat": M.check(A, True, 60000)[0], "returns": M.check(A, AND(NOT(ctx.exc), NOT(ctx.bound)), 60000)[0]}
    if tw["returns"] != "sat":
        return [result(name, VACUOUS, "E1/symheap", twins=tw, bounds=bounds,
                       detail="normal return unreachable %s %s" % (tw, sorted(set(ctx.bound_why))[:3]))]
    out = []
    for g, c in goals.items():
        oname = name + "/" + g
        st, dt, mdl = M.check(A + ok, NOT(AND(*c)), timeout_ms)
        if st == "unsat":
            out.append(result(oname, DISCHARGED, "E1/symheap", queries=1, solver_s=dt, twins=tw, bounds=bounds,
                              functions=funcs, detail="unsat", wall_s=time.time() - t0, paths=1))
        elif st != "sat":
            out.append(result(oname, INCONCLUSIVE, "E1/symheap", detail="solver: %s" % st, bounds=bounds))
        else:
            state = replay.heap_to_state(pre, mdl)
            rp = {"engine": "E1", "property": "C18", "obligation": oname, "kind": "merge_wires", "state": state,
                  "w1": replay.mval(mdl, w1.t), "w2": replay.mval(mdl, w2.t), "model": u.gid("Definition", 0)}
            try:
                viol, txt = replay_merge(rp)
            except Exception:
                viol, txt = False, "replay crashed: " + traceback.format_exc()[-400:]
            out.append(result(oname, VIOLATED if viol else ERROR, "E1/symheap", queries=1, solver_s=dt, twins=tw,
                              bounds=bounds, functions=funcs, replay=rp if viol else None,
                              detail=txt if viol else "counterexample did not reproduce: " + txt,
                              wall_s=time.time() - t0))
    return out


def replay_merge(rp):
    from spydrnet.parsers.eblif.eblif_parser import EBLIFParser
    from vf.e1 import wellformed
    with replay.listener_config("none"):
        objs = replay.build(rp["state"])
        built, _ = replay.abstract(objs)
        diffs = replay.states_equal(rp["state"], built)
        if diffs:
            return False, "built state differs from the model: " + "; ".join(diffs[:3])
        w1, w2 = objs[rp["w1"]], objs[rp["w2"]]
        want = set(map(id, list(w1.pins) + list(w2.pins)))
        p = EBLIFParser.__new__(EBLIFParser)
        p.current_model = objs[rp["model"]]
        before_cables = set(map(id, p.current_model.cables))
        try:
            p.merge_wires(w1, w2)
        except Exception as e:
            return True, "merge_wires raised %s: %s" % (type(e).__name__, str(e)[:80])
        new = [c for c in p.current_model.cables if id(c) not in before_cables]
        probs = []
        if len(new) != 1 or len(new[0].wires) != 1:
            probs.append("no single new net")
        else:
            got = set(map(id, new[0].wires[0].pins))
            if got != want:
                probs.append("new net carries %d pins, the two nets had %d" % (len(got), len(want)))
        for w in (w1, w2):
            if w.cable is not None or len(w.pins):
                probs.append("an old wire is still in a cable or still lists %d pins" % len(w.pins))
        probs += wellformed.c01_problems(wellformed.closure(list(objs.values())))
        return bool(probs), ".conn merge: %s" % probs[:4]
