"""E1 step lemmas on the EBLIF reader (C18)."""
import time
import traceback

import z3
from vf.core import result, DISCHARGED, VIOLATED, INCONCLUSIVE, VACUOUS, ERROR, fn_ident
from vf.e1.sym import (Ref, SInt, ATOMS, NONE_ID, AND, OR, NOT, EQ, NE, LT, LE, GE, ITE, B, IMPLIES, Unsupported, ite_chain)
from vf.e1.heap import Universe, Heap
from vf.e1.vals import Local
from vf.e1.interp import Ctx, Frame, call_function
from vf.e1 import mutators as M, spec, replay


def merge_wires_job(tier, timeout_ms=300000):
    """.conn: EBLIFParser.merge_wires(w1, w2) from an arbitrary Inv-state: afterwards a new wire carries exactly
    the union of both pin sets, both old wires are out of their cables and empty, every other net is untouched."""
    from spydrnet.parsers.eblif.eblif_parser import EBLIFParser
    t0 = time.time()
    name = "C18/EBLIFParser.merge_wires"
    K = 3
    u = Universe(dict(Netlist=0, Library=0, Definition=2, Port=1, Cable=2, Wire=3, Instance=1, InnerPin=2, OuterPin=2),
                 dict(Cable=1, Wire=1), K, atoms=("n", "m"))
    shape = {("Definition", 0, "_cables"): [0, 1], ("Cable", 0, "_wires"): [0, 1], ("Cable", 1, "_wires"): [2],
             ("Definition", 0, "_ports"): [0], ("Port", 0, "_pins"): [0, 1], ("Definition", 0, "_children"): [0]}
    pre = Heap.symbolic(u).apply_shape(shape)
    heap = pre.copy()
    ctx = Ctx(heap, M.REAL)
    M.listeners_none(ctx)
    fr = Frame(None, True, {})
    w1 = Ref(z3.Int("wire_one"), ("Wire",))
    w2 = Ref(z3.Int("wire_two"), ("Wire",))
    kn = u.keys.index(".NAME")
    A = pre.type_constraints() + spec.inv_all(pre)
    A += [u.isin(w1.t, "Wire"), u.isin(w2.t, "Wire"), NE(w1.t, w2.t),
          LT(w1.t, u.base["Wire"] + 3), LT(w2.t, u.base["Wire"] + 3),
          pre.data["Cable"][0][kn][0], pre.data["Cable"][1][kn][0]]
    # the instance's pins belong to definition 1's... keep it simple: instance references the model itself is excluded
    A.append(NE(pre.sc[("Instance", "_reference")][0], u.gid("Definition", 0)))
    A = [B(a) for a in A if a is not True]
    selfv = Local(EBLIFParser, {"current_model": Ref(u.gid("Definition", 0), ("Definition",))})
    try:
        call_function(ctx, fr, EBLIFParser.merge_wires, [selfv, w1, w2], owner=EBLIFParser)
    except Unsupported as e:
        return [result(name, INCONCLUSIVE, "E1/symheap", detail="Unsupported: %s" % e, wall_s=time.time() - t0)]
    post = heap
    new_w = u.base["Wire"] + 3          # the only fresh wire slot
    (nl, nel) = post.ls[("Wire", "_pins")][3]
    goals = {}
    union, gone, others = [], [], []
    pin_classes = ("InnerPin", "OuterPin")
    for c in pin_classes:
        for p in range(u.live.get(c, 0)):
            g = u.gid(c, p)
            was = pre.sc[(c, "_wire")][p]
            on_either = OR(EQ(was, w1.t), EQ(was, w2.t))
            now = post.sc[(c, "_wire")][p]
            listed = OR(*[AND(LT(k, nl), EQ(nel[k], g)) for k in range(len(nel))])
            stored = True if c == "InnerPin" else spec.stored(pre, p)
            union.append(IMPLIES(AND(on_either, stored), AND(EQ(now, new_w), listed)))
            union.append(IMPLIES(listed, on_either))
            others.append(IMPLIES(AND(NOT(on_either), stored), EQ(now, was)))
    goals["new-net-carries-exactly-the-union-of-both-pin-sets"] = union
    for w in range(3):
        g = u.gid("Wire", w)
        is_old = OR(EQ(w1.t, g), EQ(w2.t, g))
        (pl, pel) = post.ls[("Wire", "_pins")][w]
        (ol, oel) = pre.ls[("Wire", "_pins")][w]
        gone.append(IMPLIES(is_old, AND(EQ(post.sc[("Wire", "_cable")][w], NONE_ID), EQ(pl, 0))))
        others.append(IMPLIES(NOT(is_old), AND(EQ(pl, ol), EQ(post.sc[("Wire", "_cable")][w], pre.sc[("Wire", "_cable")][w]),
                                               *[IMPLIES(LT(k, ol), EQ(pel[k], oel[k])) for k in range(len(oel))])))
    goals["both-old-wires-are-gone"] = gone
    goals["other-nets-untouched"] = others
    goals["new-net-is-a-cable-of-the-model"] = [
        EQ(post.sc[("Wire", "_cable")][3], u.gid("Cable", 2)),
        EQ(post.sc[("Cable", "_definition")][2], u.gid("Definition", 0))]
    for g, c in spec.inv_groups(post).items():
        if c and g.split(":")[0] in ("I1", "I2", "types"):
            goals["well-formed-afterwards/" + g] = c
    ok = [B(NOT(ctx.bound)), B(NOT(ctx.exc))]
    funcs = sorted(fn_ident(f) for f in ctx.funcs_seen)
    bounds = dict(u.describe(), shape={"%s/%d/%s" % k: v for k, v in shape.items()})
    tw = {"pre_sat": M.check(A, True, 60000)[0], "returns": M.check(A, AND(NOT(ctx.exc), NOT(ctx.bound)), 60000)[0]}
    if tw["returns"] != "sat":
        return [result(name, VACUOUS, "E1/symheap", twins=tw, bounds=bounds,
                       detail="normal return unreachable %s %s" % (tw, sorted(set(ctx.bound_why))[:3]))]
    out = []
    for g, c in goals.items():
        oname = name + "/" + g
        st, dt, mdl = M.check(A + ok, NOT(AND(*c)), timeout_ms)
        if st == "unsat":
            out.append(result(oname, DISCHARGED, "E1/symheap", queries=1, solver_s=dt, twins=tw, bounds=bounds,
                              functions=funcs, detail="unsat", wall_s=time.time() - t0, paths=1))
        elif st != "sat":
            out.append(result(oname, INCONCLUSIVE, "E1/symheap", detail="solver: %s" % st, bounds=bounds))
        else:
            state = replay.heap_to_state(pre, mdl)
            rp = {"engine": "E1", "property": "C18", "obligation": oname, "kind": "merge_wires", "state": state,
                  "w1": replay.mval(mdl, w1.t), "w2": replay.mval(mdl, w2.t), "model": u.gid("Definition", 0)}
            try:
                viol, txt = replay_merge(rp)
            except Exception:
                viol, txt = False, "replay crashed: " + traceback.format_exc()[-400:]
            out.append(result(oname, VIOLATED if viol else ERROR, "E1/symheap", queries=1, solver_s=dt, twins=tw,
                              bounds=bounds, functions=funcs, replay=rp if viol else None,
                              detail=txt if viol else "counterexample did not reproduce: " + txt,
                              wall_s=time.time() - t0))
    return out


def replay_merge(rp):
    from spydrnet.parsers.eblif.eblif_parser import EBLIFParser
    from vf.e1 import wellformed
    with replay.listener_config("none"):
        objs = replay.build(rp["state"])
        built, _ = replay.abstract(objs)
        diffs = replay.states_equal(rp["state"], built)
        if diffs:
            return False, "built state differs from the model: " + "; ".join(diffs[:3])
        w1, w2 = objs[rp["w1"]], objs[rp["w2"]]
        want = set(map(id, list(w1.pins) + list(w2.pins)))
        p = EBLIFParser.__new__(EBLIFParser)
        p.current_model = objs[rp["model"]]
        before_cables = set(map(id, p.current_model.cables))
        try:
            p.merge_wires(w1, w2)
        except Exception as e:
            return True, "merge_wires raised %s: %s" % (type(e).__name__, str(e)[:80])
        new = [c for c in p.current_model.cables if id(c) not in before_cables]
        probs = []
        if len(new) != 1 or len(new[0].wires) != 1:
            probs.append("no single new net")
        else:
            got = set(map(id, new[0].wires[0].pins))
            if got != want:
                probs.append("new net carries %d pins, the two nets had %d" % (len(got), len(want)))
        for w in (w1, w2):
            if w.cable is not None or len(w.pins):
                probs.append("an old wire is still in a cable or still lists %d pins" % len(w.pins))
        probs += wellformed.c01_problems(wellformed.closure(list(objs.values())))
        return bool(probs), ".conn merge: %s" % probs[:4]


def connect_two_models_job(tier, timeout_ms=300000):
    """EBLIFParser.connect_pin_to_wire called while reading model A and then while reading model B (parser built
    by its real __init__): each pin is joined to bit i of the net with that name IN THE MODEL BEING READ -- created
    there if absent -- whatever was connected in the model before (nets never leak between models)."""
    from spydrnet.parsers.eblif.eblif_parser import EBLIFParser
    t0 = time.time()
    name = "C18/EBLIFParser.connect_pin_to_wire/net-of-the-model-being-read"
    u = Universe(dict(Netlist=0, Library=0, Definition=2, Port=2, Cable=2, Wire=2, Instance=0, InnerPin=2, OuterPin=0),
                 dict(Cable=2, Wire=4), 3, keys=(".NAME",), atoms=("x", "y"))
    shape = {("Definition", 0, "_cables"): [0], ("Cable", 0, "_wires"): [0], ("Definition", 0, "_ports"): [0], ("Port", 0, "_pins"): [0],
             ("Definition", 1, "_cables"): [1], ("Cable", 1, "_wires"): [1], ("Definition", 1, "_ports"): [1], ("Port", 1, "_pins"): [1]}
    pre = Heap.symbolic(u).apply_shape(shape)
    heap = pre.copy()
    ctx = Ctx(heap, M.REAL)
    M.listeners_none(ctx)
    ctx.globals_over[("spydrnet.global_state.global_service", "_registered_lookups")] = {}
    fr = Frame(None, True, {})
    kn = u.keys.index(".NAME")
    A = pre.type_constraints() + spec.inv_all(pre)
    A += [pre.data["Cable"][0][kn][0], pre.data["Cable"][1][kn][0],
          EQ(pre.sc[("InnerPin", "_wire")][0], NONE_ID), EQ(pre.sc[("InnerPin", "_wire")][1], NONE_ID)]
    from vf.e1.sym import SAtom
    names = [SAtom(z3.Int("net_name_%d" % k), u.atom_ids) for k in range(2)]
    idx = [z3.Int("bit_%d" % k) for k in range(2)]
    for k in range(2):
        A += [OR(*[EQ(names[k].t, a) for a in u.atom_ids]), GE(idx[k], 0), LE(idx[k], 1)]
    A = [B(a) for a in A if a is not True]
    selfv = Local(EBLIFParser, {})
    try:
        call_function(ctx, fr, EBLIFParser.__init__, [selfv], owner=EBLIFParser)
        for k in range(2):
            selfv.f["current_model"] = Ref(u.gid("Definition", k), ("Definition",))
            call_function(ctx, fr, EBLIFParser.connect_pin_to_wire,
                          [selfv, Ref(u.gid("InnerPin", k), ("InnerPin",)), names[k], SInt(idx[k])], owner=EBLIFParser)
    except Unsupported as e:
        return [result(name, INCONCLUSIVE, "E1/symheap", detail="Unsupported: %s" % e, wall_s=time.time() - t0)]
    post = heap
    goals = {}
    own, named, bit = [], [], []
    NW, NC = u.n["Wire"], u.n["Cable"]
    for k in range(2):
        w = post.sc[("InnerPin", "_wire")][k]
        cab = ite_chain(w, u.ids("Wire"), post.sc[("Wire", "_cable")], NONE_ID)
        owner = ite_chain(cab, u.ids("Cable"), post.sc[("Cable", "_definition")], NONE_ID)
        own.append(AND(NE(w, NONE_ID), EQ(owner, u.gid("Definition", k))))
        nm = ite_chain(cab, u.ids("Cable"), [ITE(post.data["Cable"][c][kn][0], post.data["Cable"][c][kn][1], 0) for c in range(NC)], 0)
        named.append(EQ(nm, names[k].t))
        pos_ok = False
        for c in range(NC):
            ln, el = post.ls[("Cable", "_wires")][c]
            for j in range(len(el)):
                pos_ok = OR(pos_ok, AND(EQ(cab, u.gid("Cable", c)), LT(j, ln), EQ(el[j], w), EQ(idx[k], j)))
        bit.append(pos_ok)
    goals["pin-joins-a-net-of-the-model-being-read"] = own
    goals["that-net-carries-the-given-name"] = named
    goals["at-the-given-bit-position"] = bit
    goals["well-formed-afterwards"] = [c for g, cs in spec.inv_groups(post).items() for c in cs
                                       if g.split(":")[0] in ("I1", "I2", "types")]
    funcs = sorted(fn_ident(f) for f in ctx.funcs_seen)
    bounds = dict(u.describe(), shape={"%s/%d/%s" % k: v for k, v in shape.items()}, bit_index="0..1",
                  names="x / y (symbolic, also for the existing nets)")
    ok = [B(NOT(ctx.bound)), B(NOT(ctx.exc))]
    tw = {"pre_sat": M.check(A, True, 60000)[0], "returns": M.check(A, AND(NOT(ctx.exc), NOT(ctx.bound)), 120000)[0],
          "same-name-in-both-models": M.check(A + ok, EQ(names[0].t, names[1].t), 120000)[0]}
    if any(v != "sat" for v in tw.values()):
        return [result(name, VACUOUS, "E1/symheap", twins=tw, bounds=bounds, detail="reachability twin failed: %s %s" % (
            tw, sorted(set(ctx.bound_why))[:3]))]
    out = []
    for g, cs in list(goals.items()) + [("never-raises", None)]:
        oname = name + "/" + g
        if cs is None:
            st, dt, mdl = M.check(A + [B(NOT(ctx.bound))], ctx.exc, timeout_ms)
        else:
            st, dt, mdl = M.check(A + ok, NOT(AND(*cs)), timeout_ms)
        if st == "unsat":
            out.append(result(oname, DISCHARGED, "E1/symheap", queries=1, solver_s=dt, twins=tw, bounds=bounds,
                              functions=funcs, detail="unsat", wall_s=time.time() - t0, paths=1))
        elif st != "sat":
            out.append(result(oname, INCONCLUSIVE, "E1/symheap", detail="solver: %s" % st, bounds=bounds))
        else:
            mv = lambda x: replay.mval(mdl, x)
            rp = {"engine": "E1", "property": "C18", "obligation": oname, "kind": "connect_two_models",
                  "existing": [ATOMS.vals[mv(pre.data["Cable"][c][kn][1])] for c in range(2)],
                  "names": [ATOMS.vals[mv(names[k].t)] for k in range(2)], "bits": [mv(idx[k]) for k in range(2)]}
            try:
                viol, txt = replay_connect_two_models(rp)
            except Exception:
                viol, txt = False, "replay crashed: " + traceback.format_exc()[-400:]
            out.append(result(oname, VIOLATED if viol else ERROR, "E1/symheap", queries=1, solver_s=dt, twins=tw,
                              bounds=bounds, functions=funcs, replay=rp if viol else None,
                              detail=txt if viol else "counterexample did not reproduce: " + txt,
                              wall_s=time.time() - t0))
    return out


def replay_connect_two_models(rp):
    """the real parser object, two real models, the two calls in order"""
    import spydrnet as sdn
    from spydrnet.parsers.eblif.eblif_parser import EBLIFParser
    with replay.listener_config("none"):
        p = EBLIFParser()
        lib = sdn.Library(name="work")
        pins, models = [], []
        for k in range(2):
            d = lib.create_definition(name="m%d" % k)
            d.create_cable(name=rp["existing"][k]).create_wire()
            pins.append(d.create_port(name="p").create_pin())
            models.append(d)
        probs = []
        for k in range(2):
            p.current_model = models[k]
            try:
                p.connect_pin_to_wire(pins[k], rp["names"][k], rp["bits"][k])
            except Exception as e:
                return True, "connect_pin_to_wire raised %s: %s" % (type(e).__name__, str(e)[:80])
            w = pins[k].wire
            if w is None or w.cable is None or w.cable.definition is not models[k]:
                probs.append("pin of model %d joined a net of %s" % (
                    k, "nothing" if w is None or w.cable is None else "model " + str(models.index(w.cable.definition))))
            elif w.cable.name != rp["names"][k] or w.cable.wires.index(w) != rp["bits"][k]:
                probs.append("pin of model %d is on %s[%d], asked for %s[%d]" % (
                    k, w.cable.name, w.cable.wires.index(w), rp["names"][k], rp["bits"][k]))
        return bool(probs), "existing nets %s, connects %s: %s" % (
            rp["existing"], list(zip(rp["names"], rp["bits"])), probs or "as asked")
