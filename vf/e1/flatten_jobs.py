"""C09 / C08 step lemmas (the whole transformations exceed what z3 decides on symbolic connections; the
lemmas are what the inductive argument in DESIGN.md §9 rests on)."""
import time
import traceback

import z3
from vf.core import result, DISCHARGED, VIOLATED, INCONCLUSIVE, VACUOUS, ERROR, fn_ident
from vf.e1.sym import (ATOMS, Ref, NONE_ID, is_sym, ITE, AND, OR, NOT, EQ, NE, LT, GT, ADD, B, IMPLIES, Unsupported,
                       ite_chain)
from vf.e1.heap import Universe, Heap
from vf.e1.interp import Ctx, Frame, call_function
from vf.e1 import mutators as M, spec, replay


def redo_connections_job(tier, timeout_ms=300000):
    """flatten._redo_connections(instance, port) for a one-pin port, from an ARBITRARY well-formed state: the
    inner net and the outer net of that port pin are merged -- EVERY other pin of the inner net (instance pins
    and pins of other ports alike: feed-through) ends up on the outer net; an unconnected side leaves the other
    net intact; the boundary pins are disconnected; nothing else changes; the netlist stays well-formed."""
    import spydrnet.flatten as fl
    t0 = time.time()
    name = "C09/flatten._redo_connections"
    u = Universe(dict(Netlist=0, Library=0, Definition=2, Port=2, Cable=2, Wire=2, Instance=2, InnerPin=2, OuterPin=4),
                 {}, 3)
    # definition 0 = parent (holds the instance and the outer net), definition 1 = the instanced cell with
    # two one-pin ports (so that an inner net can sit on both: feed-through)
    shape = {("Definition", 1, "_ports"): [0, 1], ("Port", 0, "_pins"): [0], ("Port", 1, "_pins"): [1],
             ("Definition", 0, "_cables"): [0], ("Cable", 0, "_wires"): [0],
             ("Definition", 1, "_cables"): [1], ("Cable", 1, "_wires"): [1],
             ("Definition", 0, "_children"): [0], ("Definition", 1, "_children"): [1]}
    pre = Heap.symbolic(u).apply_shape(shape)
    heap = pre.copy()
    ctx = Ctx(heap, M.REAL)
    M.listeners_none(ctx)
    fr = Frame(None, True, {})
    inst = Ref(u.gid("Instance", 0), ("Instance",))
    port = Ref(z3.Int("port"), ("Port",))
    A = pre.type_constraints() + spec.inv_all(pre)
    A += [u.isin(port.t, "Port"), EQ(pre.sc[("Instance", "_reference")][0], u.gid("Definition", 1))]
    # nets are local: wire 0 (parent) joins only outer pins of instance 0; wire 1 (cell) joins the cell's
    # inner pins and outer pins of its child instance 1
    (l0, e0), (l1, e1) = pre.ls[("Wire", "_pins")][0], pre.ls[("Wire", "_pins")][1]
    op_of = lambda i, p: pre.pinmap[i][p]
    for k in range(len(e0)):
        A.append(IMPLIES(LT(k, l0), OR(*[EQ(e0[k], op_of(0, p)) for p in range(2)])))
        A.append(IMPLIES(LT(k, l1), OR(EQ(e1[k], u.gid("InnerPin", 0)), EQ(e1[k], u.gid("InnerPin", 1)),
                                       *[AND(EQ(e1[k], op_of(1, p)), NE(op_of(1, p), NONE_ID)) for p in range(2)])))
    A = [B(a) for a in A if a is not True]
    try:
        call_function(ctx, fr, fl._redo_connections, [inst, port])
    except Unsupported as e:
        return [result(name, INCONCLUSIVE, "E1/symheap", detail="Unsupported: %s" % e, wall_s=time.time() - t0)]
    post = heap
    # the boundary pin pair of the chosen port
    pin = ITE(EQ(port.t, u.gid("Port", 0)), u.gid("InnerPin", 0), u.gid("InnerPin", 1))
    pslot = ITE(EQ(port.t, u.gid("Port", 0)), 0, 1)
    opin = ite_chain(pslot, [0, 1], [pre.pinmap[0][0], pre.pinmap[0][1]], NONE_ID)
    iw = ite_chain(pslot, [0, 1], pre.sc[("InnerPin", "_wire")], NONE_ID)
    ow = ite_chain(opin, u.ids("OuterPin"), pre.sc[("OuterPin", "_wire")], NONE_ID)
    goals = {}
    merged, kept, boundary = [], [], []
    for c in ("InnerPin", "OuterPin"):
        for k in range(u.live[c]):
            g = u.gid(c, k)
            was, now = pre.sc[(c, "_wire")][k], post.sc[(c, "_wire")][k]
            is_b = OR(EQ(g, pin), EQ(g, opin))
            st = True if c == "InnerPin" else spec.stored(pre, k)
            boundary.append(IMPLIES(is_b, EQ(now, NONE_ID)))
            on_inner = AND(NOT(is_b), st, NE(iw, NONE_ID), EQ(was, iw))
            merged.append(IMPLIES(AND(on_inner, NE(ow, NONE_ID)), EQ(now, ow)))
            kept.append(IMPLIES(AND(on_inner, EQ(ow, NONE_ID)), EQ(now, iw)))
            kept.append(IMPLIES(AND(NOT(is_b), st, NOT(AND(NE(iw, NONE_ID), EQ(was, iw)))), EQ(now, was)))
    goals["inner-net-joins-the-outer-net-including-pins-of-other-ports"] = merged
    goals["unconnected-side-leaves-the-other-net-intact-and-nothing-else-moves"] = kept
    goals["boundary-pins-are-disconnected"] = boundary
    wf = [c for g, cs in spec.inv_groups(post).items() for c in cs if g.split(":")[0] in ("I1", "I2", "types")]
    goals["well-formed-afterwards"] = wf
    funcs = sorted(fn_ident(f) for f in ctx.funcs_seen)
    bounds = dict(u.describe(), shape={"%s/%d/%s" % k: v for k, v in shape.items()},
                  note="one-pin ports; both ports of the cell may share the inner net")
    ok = [B(NOT(ctx.bound)), B(NOT(ctx.exc))]
    tw = {"pre_sat": M.check(A, True, 60000)[0], "returns": M.check(A, AND(NOT(ctx.exc), NOT(ctx.bound)), 120000)[0]}
    if tw["pre_sat"] != "sat" or tw["returns"] != "sat":
        return [result(name, VACUOUS, "E1/symheap", twins=tw, bounds=bounds, detail="reachability twin failed: %s %s" % (
            tw, sorted(set(ctx.bound_why))[:3]))]
    out = []
    for g, cs in list(goals.items()) + [("never-raises", None)]:
        oname = name + "/" + g
        if cs is None:
            st, dt, mdl = M.check(A + [B(NOT(ctx.bound))], ctx.exc, timeout_ms)
        else:
            st, dt, mdl = M.check(A + ok, NOT(AND(*cs)), timeout_ms)
        if st == "unsat":
            out.append(result(oname, DISCHARGED, "E1/symheap", queries=1, solver_s=dt, twins=tw, bounds=bounds,
                              functions=funcs, detail="unsat", wall_s=time.time() - t0, paths=1))
        elif st != "sat":
            out.append(result(oname, INCONCLUSIVE, "E1/symheap", detail="solver: %s" % st, bounds=bounds))
        else:
            state = replay.heap_to_state(pre, mdl)
            rp = {"engine": "E1", "property": "C09", "obligation": oname, "kind": "redo_connections", "state": state,
                  "instance": u.gid("Instance", 0), "port": replay.mval(mdl, port.t)}
            try:
                viol, txt = replay_redo(rp)
            except Exception:
                viol, txt = False, "replay crashed: " + traceback.format_exc()[-400:]
            out.append(result(oname, VIOLATED if viol else ERROR, "E1/symheap", queries=1, solver_s=dt, twins=tw,
                              bounds=bounds, functions=funcs, replay=rp if viol else None,
                              detail=txt if viol else "counterexample did not reproduce: " + txt,
                              wall_s=time.time() - t0))
    return out


def replay_redo(rp):
    import spydrnet as sdn
    from spydrnet.flatten import _redo_connections
    from vf.e1 import wellformed
    with replay.listener_config("none"):
        objs = replay.build(rp["state"])
        built, _ = replay.abstract(objs)
        diffs = replay.states_equal(rp["state"], built)
        if diffs:
            return False, "built state differs from the model: " + "; ".join(diffs[:3])
        inst, port = objs[rp["instance"]], objs[rp["port"]]
        pin = port.pins[0]
        opin = inst.pins[pin]
        iw, ow = pin.wire, opin.wire
        inner_others = [p for p in (iw.pins if iw is not None else []) if p is not pin]
        outer_others = [p for p in (ow.pins if ow is not None else []) if p is not opin]
        try:
            _redo_connections(inst, port)
        except Exception as e:
            return True, "_redo_connections raised %s: %s" % (type(e).__name__, str(e)[:80])
        probs = []
        if pin.wire is not None or opin.wire is not None:
            probs.append("a boundary pin is still connected")
        for p in inner_others:
            want = ow if ow is not None else iw
            if p.wire is not want:
                probs.append("a %s of the inner net is not on the %s net afterwards" % (
                    type(p).__name__, "outer" if ow is not None else "inner"))
        for p in outer_others:
            if p.wire is not ow:
                probs.append("a pin of the outer net moved")
        probs += wellformed.c01_problems(wellformed.closure(list(objs.values())))
        return bool(probs), "_redo_connections: %s" % sorted(set(probs))[:4]


def uniquify_jobs(tier, timeout_ms=300000):
    """C08 step lemmas: _is_unique agrees with 'only instance of its definition, or leaf'; _make_instance_unique
    gives the instance a private, freshly named copy of its definition right after the original in the same
    library, moves exactly this instance between the reference sets, and keeps every outer-pin connection."""
    import spydrnet.uniquify as uq
    from vf.e1.vals import raw_bool
    from vf.e1.interp import truth_of
    out = []
    t0 = time.time()
    # ---- _is_unique on an arbitrary heap
    name = "C08/uniquify._is_unique"
    u, p = M.universe("quick")
    pre = Heap.symbolic(u)
    ctx = Ctx(pre.copy(), M.REAL)
    M.listeners_none(ctx)
    fr = Frame(None, True, {})
    inst = Ref(z3.Int("instance"), ("Instance",))
    A = pre.type_constraints() + spec.inv_all(pre) + [u.isin(inst.t, "Instance")]
    ref = ite_chain(inst.t, u.ids("Instance"), pre.sc[("Instance", "_reference")], NONE_ID)
    A.append(NE(ref, NONE_ID))
    A = [B(a) for a in A if a is not True]
    try:
        r = call_function(ctx, fr, uq._is_unique, [inst])
        got = truth_of(ctx, fr, r)
        nrefs, leaf = 0, False
        for d in range(u.n["Definition"]):
            isd = EQ(ref, u.gid("Definition", d))
            cnt = 0
            for i in range(u.n["Instance"]):
                cnt = ADD(cnt, ITE(pre.refs[d][i], 1, 0))
            nrefs = ITE(isd, cnt, nrefs)
            leaf = ITE(isd, AND(EQ(pre.ls[("Definition", "_children")][d][0], 0),
                                EQ(pre.ls[("Definition", "_cables")][d][0], 0)), leaf)
        want = OR(EQ(nrefs, 1), leaf)
        st, dt, mdl = M.check(A + [B(NOT(ctx.exc))], NOT(EQ(got, want)), timeout_ms)
        funcs = sorted(fn_ident(f) for f in ctx.funcs_seen)
        if st == "unsat":
            out.append(result(name, DISCHARGED, "E1/symheap", queries=1, solver_s=dt, bounds=u.describe(),
                              functions=funcs, detail="unsat", wall_s=time.time() - t0, paths=1))
        elif st == "sat":
            state = replay.heap_to_state(pre, mdl)
            rp = {"engine": "E1", "property": "C08", "obligation": name, "kind": "is_unique", "state": state,
                  "instance": replay.mval(mdl, inst.t)}
            viol, txt = replay_is_unique(rp)
            out.append(result(name, VIOLATED if viol else ERROR, "E1/symheap", queries=1, solver_s=dt,
                              bounds=u.describe(), functions=funcs, replay=rp if viol else None,
                              detail=txt if viol else "counterexample did not reproduce: " + txt))
        else:
            out.append(result(name, INCONCLUSIVE, "E1/symheap", detail="solver: %s" % st))
    except Unsupported as e:
        out.append(result(name, INCONCLUSIVE, "E1/symheap", detail="Unsupported: %s" % e))
    return out


def replay_is_unique(rp):
    from spydrnet.uniquify import _is_unique
    with replay.listener_config("none"):
        objs = replay.build(rp["state"])
        built, _ = replay.abstract(objs)
        diffs = replay.states_equal(rp["state"], built)
        if diffs:
            return False, "built state differs from the model: " + "; ".join(diffs[:3])
        inst = objs[rp["instance"]]
        d = inst.reference
        want = len(d.references) == 1 or (len(d.children) == 0 and len(d.cables) == 0)
        got = bool(_is_unique(inst))
        return got != want, "_is_unique says %s for an instance whose definition has %d references, %d children, %d cables" % (
            got, len(d.references), len(d.children), len(d.cables))


def make_unique_job(tier, timeout_ms=300000):
    """uniquify._make_instance_unique(instance) as one step on a shape-concrete library: the instance gets a
    private, freshly named copy placed right after the original; exactly this instance moves between the reference
    sets; each of its outer pins keeps its wire and now names the corresponding pin of the copy; the copy has the
    original's shape; everything else is untouched; the netlist stays well-formed."""
    import spydrnet.uniquify as uq
    t0 = time.time()
    name = "C08/uniquify._make_instance_unique"
    live = dict(Netlist=1, Library=1, Definition=3, Port=1, Cable=1, Wire=1, Instance=3, InnerPin=1, OuterPin=3)
    u = Universe(live, dict(Definition=1, Port=1, Cable=1, Wire=1, Instance=1, InnerPin=1, OuterPin=1), 3, list_caps={("Library", "_definitions"): 4},
                 keys=(".NAME",), atoms=("a", "b"))
    # library: [TOP(def0), SUB(def1)] ; SUB: port0(pin0), cable0(wire0), child inst2 ; TOP: children inst0, inst1
    shape = {("Netlist", 0, "_libraries"): [0], ("Library", 0, "_definitions"): [0, 1, 2],
             ("Definition", 1, "_ports"): [0], ("Port", 0, "_pins"): [0], ("Definition", 1, "_cables"): [0],
             ("Cable", 0, "_wires"): [0], ("Definition", 1, "_children"): [2], ("Definition", 0, "_children"): [0, 1]}
    pre = Heap.symbolic(u).apply_shape(shape)
    heap = pre.copy()
    ctx = Ctx(heap, M.REAL)
    M.listeners_none(ctx)
    fr = Frame(None, True, {})
    A = pre.type_constraints() + spec.inv_all(pre)
    SUB, TOP = u.gid("Definition", 1), u.gid("Definition", 0)
    A += [EQ(pre.sc[("Instance", "_reference")][0], SUB), EQ(pre.sc[("Instance", "_reference")][1], SUB),
          EQ(pre.sc[("Instance", "_reference")][2], u.gid("Definition", 2)),
          pre.data["Definition"][1][0][0]]
    # nets are local to their definition: SUB's wire joins only SUB's port pin and pins of SUB's child
    (wl, wel) = pre.ls[("Wire", "_pins")][0]
    for k in range(len(wel)):
        A.append(IMPLIES(LT(k, wl), OR(EQ(wel[k], u.gid("InnerPin", 0)),
                                       *[AND(EQ(wel[k], pre.pinmap[2][p_]), NE(pre.pinmap[2][p_], NONE_ID))
                                         for p_ in range(u.n["InnerPin"])])))
    A = [B(a) for a in A if a is not True]
    inst = Ref(u.gid("Instance", 0), ("Instance",))
    try:
        call_function(ctx, fr, uq._make_instance_unique, [inst])
    except Unsupported as e:
        return [result(name, INCONCLUSIVE, "E1/symheap", detail="Unsupported: %s" % e, wall_s=time.time() - t0)]
    post = heap
    NEW = u.gid("Definition", 3)       # the only fresh definition slot
    LEAF = u.gid("Definition", 2)
    goals = {}
    (dl, del_) = post.ls[("Library", "_definitions")][0]
    goals["copy-placed-right-after-the-original-in-the-same-library"] = [
        EQ(post.sc[("Instance", "_reference")][0], NEW), EQ(dl, 4), EQ(del_[0], TOP), EQ(del_[1], SUB), EQ(del_[2], NEW),
        EQ(del_[3], LEAF), EQ(post.sc[("Definition", "_library")][3], u.gid("Library", 0))]
    goals["exactly-this-instance-moves-between-the-reference-sets"] = [
        NOT(post.refs[1][0]), post.refs[1][1], post.refs[3][0],
        *[NOT(post.refs[3][i]) for i in range(1, u.n["Instance"])],
        EQ(post.sc[("Instance", "_reference")][1], SUB)]
    # outer pin of inst0 for SUB's pin: same object, same wire, now keyed by / naming the copy's pin
    o = pre.pinmap[0][0]
    new_pin = u.gid("InnerPin", 1)
    goals["outer-pins-keep-their-connections-on-the-corresponding-pin"] = [
        EQ(post.pinmap[0][1], o), EQ(post.pinmap[0][0], NONE_ID),
        EQ(ite_chain(o, u.ids("OuterPin"), post.sc[("OuterPin", "_wire")], NONE_ID),
           ite_chain(o, u.ids("OuterPin"), pre.sc[("OuterPin", "_wire")], NONE_ID)),
        EQ(ite_chain(o, u.ids("OuterPin"), post.sc[("OuterPin", "_inner_pin")], NONE_ID), new_pin)]
    (pl, pel) = post.ls[("Definition", "_ports")][3]
    (cl, cel) = post.ls[("Definition", "_cables")][3]
    (hl, hel) = post.ls[("Definition", "_children")][3]
    goals["copy-has-the-shape-of-the-original"] = [
        EQ(pl, 1), EQ(pel[0], u.gid("Port", 1)), EQ(post.ls[("Port", "_pins")][1][0], 1),
        EQ(post.ls[("Port", "_pins")][1][1][0], new_pin), EQ(cl, 1), EQ(cel[0], u.gid("Cable", 1)),
        EQ(post.ls[("Cable", "_wires")][1][0], 1), EQ(hl, 1), EQ(hel[0], u.gid("Instance", 3)),
        EQ(post.sc[("Instance", "_reference")][3], pre.sc[("Instance", "_reference")][2])]
    # fresh name: differs from both sibling names
    kn = 0
    goals["copy-has-a-fresh-name"] = [
        post.data["Definition"][3][kn][0],
        NE(post.data["Definition"][3][kn][1], pre.data["Definition"][1][kn][1]),
        OR(NOT(pre.data["Definition"][0][kn][0]), NE(post.data["Definition"][3][kn][1], pre.data["Definition"][0][kn][1])),
        OR(NOT(pre.data["Definition"][2][kn][0]), NE(post.data["Definition"][3][kn][1], pre.data["Definition"][2][kn][1]))]
    fr_ = spec.frame_groups(pre, post)
    untouched = []
    for g, cs in fr_.items():
        if g in ("frame:Library._definitions", "frame:Instance._reference", "frame:Definition._references",
                 "frame:Instance._pins", "frame:OuterPin._inner_pin"):
            continue
        untouched += cs
    goals["everything-else-untouched"] = untouched
    goals["well-formed-afterwards"] = [c for g, cs in spec.inv_groups(post).items() for c in cs]
    funcs = sorted(fn_ident(f) for f in ctx.funcs_seen)
    bounds = dict(u.describe(), shape={"%s/%d/%s" % k: v for k, v in shape.items()})
    ok = [B(NOT(ctx.bound)), B(NOT(ctx.exc))]
    tw = {"pre_sat": M.check(A, True, 60000)[0], "returns": M.check(A, AND(NOT(ctx.exc), NOT(ctx.bound)), 120000)[0]}
    if tw["pre_sat"] != "sat" or tw["returns"] != "sat":
        return [result(name, VACUOUS, "E1/symheap", twins=tw, bounds=bounds, detail="reachability twin failed: %s %s" % (
            tw, sorted(set(ctx.bound_why))[:3]))]
    out = []
    for g, cs in list(goals.items()) + [("never-raises", None)]:
        oname = name + "/" + g
        if cs is None:
            st, dt, mdl = M.check(A + [B(NOT(ctx.bound))], ctx.exc, timeout_ms)
        else:
            st, dt, mdl = M.check(A + ok, NOT(AND(*cs)), timeout_ms)
        if st == "unsat":
            out.append(result(oname, DISCHARGED, "E1/symheap", queries=1, solver_s=dt, twins=tw, bounds=bounds,
                              functions=funcs, detail="unsat", wall_s=time.time() - t0, paths=1))
        elif st != "sat":
            out.append(result(oname, INCONCLUSIVE, "E1/symheap", detail="solver: %s" % st, bounds=bounds))
        else:
            state = replay.heap_to_state(pre, mdl)
            rp = {"engine": "E1", "property": "C08", "obligation": oname, "kind": "make_unique", "state": state,
                  "instance": u.gid("Instance", 0)}
            try:
                viol, txt = replay_make_unique(rp)
            except Exception:
                viol, txt = False, "replay crashed: " + traceback.format_exc()[-400:]
            out.append(result(oname, VIOLATED if viol else ERROR, "E1/symheap", queries=1, solver_s=dt, twins=tw,
                              bounds=bounds, functions=funcs, replay=rp if viol else None,
                              detail=txt if viol else "counterexample did not reproduce: " + txt,
                              wall_s=time.time() - t0))
    return out


def replay_make_unique(rp):
    from spydrnet.uniquify import _make_instance_unique
    from vf.e1 import wellformed
    with replay.listener_config("none"):
        objs = replay.build(rp["state"])
        built, _ = replay.abstract(objs)
        diffs = replay.states_equal(rp["state"], built)
        if diffs:
            return False, "built state differs from the model: " + "; ".join(diffs[:3])
        inst = objs[rp["instance"]]
        old = inst.reference
        lib = old.library
        others = [i for i in old.references if i is not inst]
        wires = [op.wire for op in inst.pins]
        idx = list(lib.definitions).index(old)
        try:
            _make_instance_unique(inst)
        except Exception as e:
            return True, "_make_instance_unique raised %s: %s" % (type(e).__name__, str(e)[:80])
        new = inst.reference
        probs = []
        if new is old or list(lib.definitions)[idx + 1:idx + 2] != [new]:
            probs.append("copy is not placed right after the original")
        if inst in old.references or set(new.references) != {inst} or any(i not in old.references for i in others):
            probs.append("reference sets are wrong")
        if [op.wire for op in inst.pins] != wires:
            probs.append("an outer pin lost its connection")
        if len(new.ports) != len(old.ports) or len(new.cables) != len(old.cables) or len(new.children) != len(old.children):
            probs.append("copy has another shape")
        if new.name is None or new.name in [d.name for d in lib.definitions if d is not new]:
            probs.append("copy's name is not fresh")
        probs += wellformed.c01_problems(wellformed.closure(list(objs.values()) + [new]))
        probs += wellformed.c02_problems(wellformed.closure(list(objs.values()) + [new]))
        return bool(probs), "_make_instance_unique: %s" % sorted(set(probs))[:4]


# ---- C08: the whole uniquify() driver on sharing patterns decided by the solver --------------------------------
UNIQ_FIXTURES = {
    # TOP(def0) holds i0, i1; OUT(def3), not under the top, holds i2; i3 is the top instance.
    # A(def1) is hierarchical (it owns a net), B(def2) is a leaf.  i0, i1, i2 each instantiate A or B: the solver
    # picks the sharing pattern (shared below the top, shared with the outside, not shared, leaves).
    "flat": dict(
        live=dict(Netlist=1, Library=1, Definition=4, Port=0, Cable=1, Wire=0, Instance=4, InnerPin=0, OuterPin=0),
        fresh=dict(Definition=2, Cable=2), K=2, defcap=6,
        shape={("Netlist", 0, "_libraries"): [0], ("Library", 0, "_definitions"): [0, 1, 2, 3],
               ("Definition", 0, "_children"): [0, 1], ("Definition", 3, "_children"): [2],
               ("Definition", 1, "_cables"): [0]},
        top=3, refs={0: (1, 2), 1: (1, 2), 2: (1, 2), 3: (0,)}),
    # one level deeper: A(def1) holds i4, which instantiates the hierarchical C(def4, owns a net) or the leaf B
    "nested": dict(
        live=dict(Netlist=1, Library=1, Definition=5, Port=0, Cable=2, Wire=0, Instance=5, InnerPin=0, OuterPin=0),
        fresh=dict(Definition=4, Cable=4, Instance=2), K=2, defcap=9,
        shape={("Netlist", 0, "_libraries"): [0], ("Library", 0, "_definitions"): [0, 1, 2, 3, 4],
               ("Definition", 0, "_children"): [0, 1], ("Definition", 3, "_children"): [2],
               ("Definition", 1, "_cables"): [0], ("Definition", 1, "_children"): [4], ("Definition", 4, "_cables"): [1]},
        top=3, refs={0: (1, 2, 4), 1: (1, 2, 4), 2: (1, 2, 4), 3: (0,), 4: (2, 4)}),
}


def uniquify_driver_job(tier, fixture="flat", timeout_ms=300000, cube=None, goals_only=None):
    """uniquify(netlist) -- the real breadth-first driver with the real _is_unique, _make_instance_unique and
    Definition.clone -- on a containment-concrete netlist whose instance->definition references are symbolic."""
    import spydrnet.uniquify as uq
    t0 = time.time()
    M.SOLVER_CORE = "euf"          # see mutators.check: the default core does not decide these queries in minutes
    name = "C08/uniquify{fixture=%s}" % fixture
    fx = UNIQ_FIXTURES[fixture]
    u = Universe(fx["live"], fx["fresh"], fx["K"], list_caps={("Library", "_definitions"): fx["defcap"]},
                 keys=(".NAME",), atoms=("a", "b", "c", "d", "e"))
    pre = Heap.symbolic(u).apply_shape(fx["shape"])
    for i, d in (cube or {}).items():          # cube split: some references fixed by the job, the rest symbolic
        pre.sc[("Instance", "_reference")][int(i)] = u.gid("Definition", d)
    if cube:
        name += "{%s}" % ",".join("i%s->def%d" % kv for kv in sorted(cube.items()))
    heap = pre.copy()
    ctx = Ctx(heap, M.REAL)
    M.listeners_none(ctx)
    ctx.loop_bound = 8
    fr = Frame(None, True, {})
    nI, nD = u.live["Instance"], u.live["Definition"]
    A = pre.type_constraints() + spec.inv_all(pre)
    for i, ds in fx["refs"].items():
        A.append(OR(*[EQ(pre.sc[("Instance", "_reference")][i], u.gid("Definition", d)) for d in ds]))
    A.append(EQ(pre.sc[("Netlist", "_top_instance")][0], u.gid("Instance", fx["top"])))
    # definitions carry distinct names (the naming plug-in's guarantee; C10)
    kn = 0
    for d in range(nD):
        A.append(pre.data["Definition"][d][kn][0])
        for e in range(d):
            A.append(NE(pre.data["Definition"][d][kn][1], pre.data["Definition"][e][kn][1]))
    A = [B(a) for a in A if a is not True]
    netl = Ref(u.gid("Netlist", 0), ("Netlist",))
    ctx.globals_over[("spydrnet.uniquify", "MOD_NAME_UID")] = 0
    try:
        call_function(ctx, fr, uq.uniquify, [netl])
        mid = heap.copy()
        exc1, bound1 = ctx.exc, ctx.bound
        call_function(ctx, fr, uq.uniquify, [netl])
    except Unsupported as e:
        return [result(name, INCONCLUSIVE, "E1/symheap", detail="Unsupported: %s" % e, wall_s=time.time() - t0)]
    post = mid
    ND = u.n["Definition"]
    NI = u.n["Instance"]

    def at_def(t, f):
        return ite_chain(t, u.ids("Definition"), [f(d) for d in range(ND)], False)

    def exists_i(h, i):
        return spec.exists(h, "Instance", i)
    nonleaf = lambda h, d: OR(GT(h.ls[("Definition", "_children")][d][0], 0), GT(h.ls[("Definition", "_cables")][d][0], 0))
    # reachable from the top: children of TOP, and children of the definitions those instantiate (depth <= 2)
    def children(h, d):
        ln, el = h.ls[("Definition", "_children")][d]
        return [(LT(k, ln), el[k]) for k in range(len(el))]
    reach = []            # [(cond, instance id term)]
    lvl1 = children(post, 0)
    reach += lvl1
    for c1, it in lvl1:
        rt = ite_chain(it, u.ids("Instance"), post.sc[("Instance", "_reference")], NONE_ID)
        for d in range(ND):
            for c2, it2 in children(post, d):
                reach.append((AND(c1, EQ(rt, u.gid("Definition", d)), c2), it2))
    only = []
    for cond, it in reach:
        rt = ite_chain(it, u.ids("Instance"), post.sc[("Instance", "_reference")], NONE_ID)
        for d in range(ND):
            isd = AND(cond, EQ(rt, u.gid("Definition", d)), nonleaf(post, d))
            if isd is False:
                continue
            for j in range(NI):
                only.append(IMPLIES(AND(isd, exists_i(post, j), NE(it, u.gid("Instance", j))),
                                    NE(post.sc[("Instance", "_reference")][j], u.gid("Definition", d))))
    goals = {"every-reachable-hierarchical-instance-is-the-only-one-of-its-definition": only}
    # the elaborated design: same tree, same leaf types.  sig(h, instance) = leaf definition, or (cables, children sigs)
    def same_design(i_pre, it_post, depth):
        """instance slot i_pre of the pre-state vs the instance term it_post of the post-state"""
        cs = []
        r0 = pre.sc[("Instance", "_reference")][i_pre]
        r1 = ite_chain(it_post, u.ids("Instance"), post.sc[("Instance", "_reference")], NONE_ID)
        for d0 in range(nD):
            is0 = EQ(r0, u.gid("Definition", d0))
            if is0 is False:
                continue
            leaf0 = NOT(nonleaf(pre, d0))
            cs.append(IMPLIES(AND(is0, leaf0), EQ(r1, r0)))            # leaf occurrences keep their cell type
            for d1 in range(ND):
                is1 = AND(is0, NOT(leaf0), EQ(r1, u.gid("Definition", d1)))
                if is1 is False:
                    continue
                l0, e0 = pre.ls[("Definition", "_children")][d0]
                l1, e1 = post.ls[("Definition", "_children")][d1]
                cs.append(IMPLIES(is1, AND(EQ(l0, l1), EQ(pre.ls[("Definition", "_cables")][d0][0],
                                                           post.ls[("Definition", "_cables")][d1][0]))))
                if depth > 0:
                    for k in range(min(len(e0), len(e1))):
                        for ci in range(nI):
                            hit = AND(is1, LT(k, l0), EQ(e0[k], u.gid("Instance", ci)))
                            if hit is False:
                                continue
                            cs += [IMPLIES(hit, c) for c in same_design(ci, e1[k], depth - 1)]
            cs.append(IMPLIES(AND(is0, NOT(leaf0)), OR(*[EQ(r1, u.gid("Definition", d1)) for d1 in range(ND)])))
        return cs
    tl, tel = post.ls[("Definition", "_children")][0]
    design = [EQ(tl, 2), EQ(tel[0], u.gid("Instance", 0)), EQ(tel[1], u.gid("Instance", 1))]
    for i in (0, 1):
        design += same_design(i, u.gid("Instance", i), 1)
    goals["elaborated-tree-and-leaf-types-unchanged"] = design
    # outside the top hierarchy nothing moves; the original definitions keep their content
    outside = [EQ(post.sc[("Instance", "_reference")][2], pre.sc[("Instance", "_reference")][2]),
               EQ(post.sc[("Instance", "_reference")][fx["top"]], u.gid("Definition", 0)),
               EQ(post.sc[("Netlist", "_top_instance")][0], u.gid("Instance", fx["top"]))]
    for g, cs in spec.frame_groups(pre, post).items():
        if g in ("frame:Definition._children", "frame:Definition._cables", "frame:Definition._ports", "frame:Instance._parent",
                 "frame:Cable._definition", "frame:Definition._library", "frame:Netlist._libraries"):
            outside += cs
    goals["originals-and-the-outside-untouched"] = outside
    # new definitions live in the original's library under fresh names
    fresh = []
    dl, del_ = post.ls[("Library", "_definitions")][0]
    for d in range(nD, ND):
        ex = spec.exists(post, "Definition", d)
        fresh.append(IMPLIES(ex, AND(EQ(post.sc[("Definition", "_library")][d], u.gid("Library", 0)),
                                     post.data["Definition"][d][kn][0])))
        for e in range(d):
            fresh.append(IMPLIES(AND(ex, spec.exists(post, "Definition", e)),
                                 NE(post.data["Definition"][d][kn][1], post.data["Definition"][e][kn][1])))
    goals["new-definitions-in-the-same-library-with-fresh-names"] = fresh
    goals["well-formed-afterwards"] = [c for g, cs in spec.inv_groups(post).items() for c in cs]
    again = []
    for g, cs in spec.frame_groups(mid, heap).items():
        again += cs
    for d in range(ND):
        again.append(EQ(spec.exists(mid, "Definition", d), spec.exists(heap, "Definition", d)))
    goals["running-it-again-changes-nothing"] = again
    funcs = sorted(fn_ident(f) for f in ctx.funcs_seen)
    bounds = dict(u.describe(), fixture=fixture, solver="z3 %s, tactic.default_tactic=smt sat.euf=true" % z3.get_version_string(),
                  shape={"%s/%d/%s" % k: v for k, v in fx["shape"].items()},
                  references={str(k): list(v) for k, v in fx["refs"].items()})
    ok1 = [B(NOT(bound1)), B(NOT(exc1))]
    ok2 = [B(NOT(ctx.bound)), B(NOT(ctx.exc))]
    tw = {"pre_sat": M.check(A, True, 60000)[0], "returns": M.check(A, AND(NOT(exc1), NOT(bound1)), 120000)[0],
          "something-is-shared": M.check(A + ok1, spec.exists(post, "Definition", nD), 120000)[0]}
    if any(v != "sat" for v in tw.values()):
        return [result(name, VACUOUS, "E1/symheap", twins=tw, bounds=bounds, detail="reachability twin failed: %s %s" % (
            tw, sorted(set(ctx.bound_why))[:3]))]
    out = []
    for g, cs in list(goals.items()) + [("never-raises", None), ("bound", "bound")]:
        oname = name + "/" + g
        if goals_only and not any(o in g for o in goals_only):
            continue
        if cs == "bound":
            st, dt, mdl = M.check(A, ctx.bound, timeout_ms)
            out.append(result(name + "/bound-reached", DISCHARGED if st in ("sat", "unsat") else INCONCLUSIVE, "E1/symheap",
                              queries=1, solver_s=dt, bounds=bounds,
                              detail="capacity/unwinding bound reachable: %s %s" % (st, sorted(set(ctx.bound_why))[:3])))
            continue
        if cs is None:
            st, dt, mdl = M.check(A + [B(NOT(ctx.bound))], ctx.exc, timeout_ms)
        else:
            st, dt, mdl = M.check(A + (ok2 if g.startswith("running") else ok1), NOT(AND(*cs)), timeout_ms)
        if st == "unsat":
            out.append(result(oname, DISCHARGED, "E1/symheap", queries=1, solver_s=dt, twins=tw, bounds=bounds,
                              functions=funcs, detail="unsat", wall_s=time.time() - t0, paths=1))
        elif st != "sat":
            out.append(result(oname, INCONCLUSIVE, "E1/symheap", detail="solver: %s" % st, bounds=bounds))
        else:
            state = replay.heap_to_state(pre, mdl)
            rp = {"engine": "E1", "property": "C08", "obligation": oname, "kind": "uniquify", "state": state,
                  "netlist": u.gid("Netlist", 0)}
            try:
                viol, txt = replay_uniquify(rp)
            except Exception:
                viol, txt = False, "replay crashed: " + traceback.format_exc()[-400:]
            out.append(result(oname, VIOLATED if viol else ERROR, "E1/symheap", queries=1, solver_s=dt, twins=tw,
                              bounds=bounds, functions=funcs, replay=rp if viol else None,
                              detail=txt if viol else "counterexample did not reproduce: " + txt,
                              wall_s=time.time() - t0))
    return out


def replay_uniquify(rp):
    """real uniquify on the real netlist built from the counterexample; concrete oracle for the C08 statement"""
    from spydrnet.uniquify import uniquify
    from vf.e1 import wellformed
    with replay.listener_config("none"):
        objs = replay.build(rp["state"])
        built, _ = replay.abstract(objs)
        diffs = replay.states_equal(rp["state"], built)
        if diffs:
            return False, "built state differs from the model: " + "; ".join(diffs[:3])
        netlist = objs[rp["netlist"]]
        top = netlist.top_instance

        def elab(defn, seen=()):
            if defn.is_leaf():
                return ("leaf", id(defn))
            return ("hier", len(defn.cables), tuple(elab(c.reference) for c in defn.children))

        def reach(defn, acc):
            for c in defn.children:
                acc.append(c)
                reach(c.reference, acc)
            return acc
        before = elab(top.reference)
        outside = {id(o): o.reference for o in objs.values() if type(o).__name__ == "Instance"
                   and o not in reach(top.reference, [])}
        libs_before = {id(d): d.library for l in netlist.libraries for d in l.definitions}
        try:
            uniquify(netlist)
        except Exception as e:
            return True, "uniquify raised %s: %s" % (type(e).__name__, str(e)[:80])
        probs = []
        for inst in reach(top.reference, []):
            if not inst.reference.is_leaf() and len(inst.reference.references) != 1:
                probs.append("hierarchical instance %r reachable from the top shares its definition %r with %d other instance(s)" % (
                    inst.name, inst.reference.name, len(inst.reference.references) - 1))
        if elab(top.reference) != before:
            probs.append("the elaborated tree / leaf types changed")
        for o in objs.values():
            if id(o) in outside and o.reference is not outside[id(o)]:
                probs.append("an instance outside the top hierarchy was re-pointed")
        names = [d.name for l in netlist.libraries for d in l.definitions]
        if len(set(names)) != len(names):
            probs.append("definition names are not unique: %s" % names)
        allobjs = wellformed.closure([netlist] + list(objs.values()))
        probs += wellformed.c01_problems(allobjs)[:2] + wellformed.c02_problems(allobjs)[:2]
        snap = [(d, tuple(d.children), tuple(c.reference for c in d.children)) for l in netlist.libraries for d in l.definitions]
        uniquify(netlist)
        snap2 = [(d, tuple(d.children), tuple(c.reference for c in d.children)) for l in netlist.libraries for d in l.definitions]
        if snap != snap2:
            probs.append("a second uniquify changed the netlist again")
        return bool(probs), "; ".join(probs[:3]) or "uniquify satisfied the statement on this netlist"


def redo_connections_bus_job(tier, timeout_ms=300000):
    """flatten._redo_connections(instance, port) for a TWO-pin port whose bits are independent (distinct inner
    nets, distinct outer nets, any of them absent): each bit is merged on its own -- bit 1 is handled whatever
    happened for bit 0 (connected, unconnected inside, unconnected outside)."""
    import spydrnet.flatten as fl
    t0 = time.time()
    name = "C09/flatten._redo_connections{two-pin-port}"
    u = Universe(dict(Netlist=0, Library=0, Definition=2, Port=1, Cable=2, Wire=4, Instance=2, InnerPin=2, OuterPin=4),
                 {}, 3)
    shape = {("Definition", 1, "_ports"): [0], ("Port", 0, "_pins"): [0, 1],
             ("Definition", 0, "_cables"): [0], ("Cable", 0, "_wires"): [0, 1],
             ("Definition", 1, "_cables"): [1], ("Cable", 1, "_wires"): [2, 3],
             ("Definition", 0, "_children"): [0], ("Definition", 1, "_children"): [1]}
    pre = Heap.symbolic(u).apply_shape(shape)
    heap = pre.copy()
    ctx = Ctx(heap, M.REAL)
    M.listeners_none(ctx)
    fr = Frame(None, True, {})
    inst = Ref(u.gid("Instance", 0), ("Instance",))
    port = Ref(u.gid("Port", 0), ("Port",))
    A = pre.type_constraints() + spec.inv_all(pre)
    A += [EQ(pre.sc[("Instance", "_reference")][0], u.gid("Definition", 1))]
    op_of = lambda i, p: pre.pinmap[i][p]
    # nets are local: parent wires 0,1 join only outer pins of instance 0; cell wires 2,3 join the cell's inner
    # pins and outer pins of its child
    for w in (0, 1):
        l, e = pre.ls[("Wire", "_pins")][w]
        for k in range(len(e)):
            A.append(IMPLIES(LT(k, l), OR(*[EQ(e[k], op_of(0, p)) for p in range(2)])))
    for w in (2, 3):
        l, e = pre.ls[("Wire", "_pins")][w]
        for k in range(len(e)):
            A.append(IMPLIES(LT(k, l), OR(EQ(e[k], u.gid("InnerPin", 0)), EQ(e[k], u.gid("InnerPin", 1)),
                                          *[AND(EQ(e[k], op_of(1, p)), NE(op_of(1, p), NONE_ID)) for p in range(2)])))
    iw = [pre.sc[("InnerPin", "_wire")][j] for j in range(2)]
    opin = [pre.pinmap[0][j] for j in range(2)]
    ow = [ite_chain(opin[j], u.ids("OuterPin"), pre.sc[("OuterPin", "_wire")], NONE_ID) for j in range(2)]
    # independent bits
    A += [OR(EQ(iw[0], NONE_ID), NE(iw[0], iw[1])), OR(EQ(ow[0], NONE_ID), NE(ow[0], ow[1]))]
    A = [B(a) for a in A if a is not True]
    try:
        call_function(ctx, fr, fl._redo_connections, [inst, port])
    except Unsupported as e:
        return [result(name, INCONCLUSIVE, "E1/symheap", detail="Unsupported: %s" % e, wall_s=time.time() - t0)]
    post = heap
    merged, kept, boundary = [], [], []
    for c in ("InnerPin", "OuterPin"):
        for k in range(u.live[c]):
            g = u.gid(c, k)
            was, now = pre.sc[(c, "_wire")][k], post.sc[(c, "_wire")][k]
            is_b = OR(*[OR(EQ(g, u.gid("InnerPin", j)), EQ(g, opin[j])) for j in range(2)])
            st = True if c == "InnerPin" else spec.stored(pre, k)
            boundary.append(IMPLIES(is_b, EQ(now, NONE_ID)))
            on_any = False
            for j in range(2):
                on_j = AND(NOT(is_b), st, NE(iw[j], NONE_ID), EQ(was, iw[j]))
                merged.append(IMPLIES(AND(on_j, NE(ow[j], NONE_ID)), EQ(now, ow[j])))
                kept.append(IMPLIES(AND(on_j, EQ(ow[j], NONE_ID)), EQ(now, iw[j])))
                on_any = OR(on_any, AND(NE(iw[j], NONE_ID), EQ(was, iw[j])))
            kept.append(IMPLIES(AND(NOT(is_b), st, NOT(on_any)), EQ(now, was)))
    goals = {"each-bit's-inner-net-joins-that-bit's-outer-net": merged,
             "unconnected-side-leaves-the-other-net-intact-and-nothing-else-moves": kept,
             "boundary-pins-of-every-bit-are-disconnected": boundary,
             "well-formed-afterwards": [c for g, cs in spec.inv_groups(post).items() for c in cs
                                        if g.split(":")[0] in ("I1", "I2", "types")]}
    funcs = sorted(fn_ident(f) for f in ctx.funcs_seen)
    bounds = dict(u.describe(), shape={"%s/%d/%s" % k: v for k, v in shape.items()},
                  note="one two-pin port; bits on distinct inner and distinct outer nets (or unconnected)")
    ok = [B(NOT(ctx.bound)), B(NOT(ctx.exc))]
    tw = {"pre_sat": M.check(A, True, 60000)[0], "returns": M.check(A, AND(NOT(ctx.exc), NOT(ctx.bound)), 120000)[0],
          "bit0-open-outside-bit1-connected": M.check(A + ok, AND(EQ(ow[0], NONE_ID), NE(ow[1], NONE_ID), NE(iw[1], NONE_ID)), 120000)[0]}
    if any(v != "sat" for v in tw.values()):
        return [result(name, VACUOUS, "E1/symheap", twins=tw, bounds=bounds, detail="reachability twin failed: %s %s" % (
            tw, sorted(set(ctx.bound_why))[:3]))]
    out = []
    for g, cs in list(goals.items()) + [("never-raises", None)]:
        oname = name + "/" + g
        if cs is None:
            st, dt, mdl = M.check(A + [B(NOT(ctx.bound))], ctx.exc, timeout_ms)
        else:
            st, dt, mdl = M.check(A + ok, NOT(AND(*cs)), timeout_ms)
        if st == "unsat":
            out.append(result(oname, DISCHARGED, "E1/symheap", queries=1, solver_s=dt, twins=tw, bounds=bounds,
                              functions=funcs, detail="unsat", wall_s=time.time() - t0, paths=1))
        elif st != "sat":
            out.append(result(oname, INCONCLUSIVE, "E1/symheap", detail="solver: %s" % st, bounds=bounds))
        else:
            state = replay.heap_to_state(pre, mdl)
            rp = {"engine": "E1", "property": "C09", "obligation": oname, "kind": "redo_connections_bus", "state": state,
                  "instance": u.gid("Instance", 0), "port": u.gid("Port", 0)}
            try:
                viol, txt = replay_redo_bus(rp)
            except Exception:
                viol, txt = False, "replay crashed: " + traceback.format_exc()[-400:]
            out.append(result(oname, VIOLATED if viol else ERROR, "E1/symheap", queries=1, solver_s=dt, twins=tw,
                              bounds=bounds, functions=funcs, replay=rp if viol else None,
                              detail=txt if viol else "counterexample did not reproduce: " + txt,
                              wall_s=time.time() - t0))
    return out


def replay_redo_bus(rp):
    from spydrnet.flatten import _redo_connections
    from vf.e1 import wellformed
    with replay.listener_config("none"):
        objs = replay.build(rp["state"])
        built, _ = replay.abstract(objs)
        diffs = replay.states_equal(rp["state"], built)
        if diffs:
            return False, "built state differs from the model: " + "; ".join(diffs[:3])
        inst, port = objs[rp["instance"]], objs[rp["port"]]
        bits = []
        for pin in port.pins:
            opin = inst.pins[pin]
            iw, ow = pin.wire, opin.wire
            bits.append((pin, opin, iw, ow, [p for p in (iw.pins if iw is not None else []) if p is not pin],
                         [p for p in (ow.pins if ow is not None else []) if p is not opin]))
        try:
            _redo_connections(inst, port)
        except Exception as e:
            return True, "_redo_connections raised %s: %s" % (type(e).__name__, str(e)[:80])
        probs = []
        for j, (pin, opin, iw, ow, inner_others, outer_others) in enumerate(bits):
            if pin.wire is not None or opin.wire is not None:
                probs.append("bit %d: a boundary pin is still connected" % j)
            for p in inner_others:
                want = ow if ow is not None else iw
                if p.wire is not want:
                    probs.append("bit %d: a %s of the inner net is not on the %s net afterwards" % (
                        j, type(p).__name__, "outer" if ow is not None else "inner"))
            for p in outer_others:
                if p.wire is not ow:
                    probs.append("bit %d: a pin of the outer net moved" % j)
        probs += wellformed.c01_problems(wellformed.closure(list(objs.values())))
        return bool(probs), "_redo_connections: %s" % sorted(set(probs))[:4]


# ---- C09: the flatten() driver on pin-free hierarchies decided by the solver ---------------------------------------
def flatten_driver_job(tier, timeout_ms=300000, i0=None):
    """flatten(netlist) -- real driver, real _bring_to_top -- on a containment-concrete, PIN-FREE netlist whose
    instance->definition references are symbolic (uniquified by assumption): afterwards the top holds exactly the leaf
    occurrences, each named by its slash-joined path and still an instance of its leaf cell; no hierarchical instance
    remains; the nets of every flattened cell sit in the top under their path names; what is not below the top is
    untouched; the netlist is well-formed.  (Connection merging is the subject of the _redo_connections lemmas.)"""
    import spydrnet.flatten as fl
    t0 = time.time()
    M.SOLVER_CORE = "euf"
    name = "C09/flatten{driver,pin-free}"
    live = dict(Netlist=1, Library=1, Definition=4, Port=0, Cable=2, Wire=0, Instance=4, InnerPin=0, OuterPin=0)
    u = Universe(live, {}, 3, list_caps={("Library", "_definitions"): 4}, keys=(".NAME",),
                 atoms=("TOP", "A", "C", "LEAF", "u0", "u1", "v", "n0", "n1", "top"))
    # TOP(def0){i0,i1} ; A(def1){i2, cable c0} ; C(def2){cable c1} ; LEAF(def3) ; i3 = top instance
    shape = {("Netlist", 0, "_libraries"): [0], ("Library", 0, "_definitions"): [0, 1, 2, 3],
             ("Definition", 0, "_children"): [0, 1], ("Definition", 1, "_children"): [2],
             ("Definition", 1, "_cables"): [0], ("Definition", 2, "_cables"): [1]}
    pre = Heap.symbolic(u).apply_shape(shape)
    kn = 0
    for c, names in (("Definition", ["TOP", "A", "C", "LEAF"]), ("Instance", ["u0", "u1", "v", "top"]), ("Cable", ["n0", "n1"])):
        for i, nm in enumerate(names):
            pre.data[c][i][kn] = (True, ATOMS.intern(nm))
    D = lambda d: u.gid("Definition", d)
    ref = pre.sc[("Instance", "_reference")]
    pre.sc[("Instance", "_reference")][3] = D(0)
    pre.sc[("Netlist", "_top_instance")][0] = u.gid("Instance", 3)
    if i0 is not None:
        # cube split: what the first instance under the top instantiates is fixed by the job (1 = A, 2 = C, 3 = LEAF);
        # the other two references stay symbolic
        pre.sc[("Instance", "_reference")][0] = D(i0)
        name += "{i0->%s}" % ["TOP", "A", "C", "LEAF"][i0]
    heap = pre.copy()
    ctx = Ctx(heap, M.REAL)
    M.listeners_none(ctx)
    ctx.loop_bound = 8
    ctx.globals_over[("spydrnet.flatten", "mod_name_uid")] = 0
    ctx.globals_over[("spydrnet.flatten", "unique_number")] = 0
    fr = Frame(None, True, {})
    A = pre.type_constraints() + spec.inv_all(pre)
    A += [OR(EQ(ref[0], D(1)), EQ(ref[0], D(2)), EQ(ref[0], D(3))), OR(EQ(ref[1], D(2)), EQ(ref[1], D(3))),
          OR(EQ(ref[2], D(2)), EQ(ref[2], D(3)))]
    # uniquified: the hierarchical cell C has at most one instance
    cnt = sum([ITE(EQ(ref[i], D(2)), 1, 0) for i in range(3)], 0)
    A.append(cnt <= 1)
    A = [B(a) for a in A if a is not True]
    ctx.path_assumptions = list(A)
    ctx.prune_infeasible_raises = True
    try:
        call_function(ctx, fr, fl.flatten, [Ref(u.gid("Netlist", 0), ("Netlist",))])
    except Unsupported as e:
        return [result(name, INCONCLUSIVE, "E1/symheap", detail="Unsupported: %s" % e, wall_s=time.time() - t0)]
    post = heap
    I = lambda i: u.gid("Instance", i)
    reach = {0: True, 1: True, 2: EQ(ref[0], D(1))}
    leaf = {i: EQ(ref[i], D(3)) for i in range(3)}
    tl, tel = post.ls[("Definition", "_children")][0]
    in_top = lambda i: OR(*[AND(LT(k, tl), EQ(tel[k], I(i))) for k in range(len(tel))])
    goals = {}
    goals["top-holds-exactly-the-leaf-occurrences"] = \
        [EQ(in_top(i), AND(reach[i], leaf[i])) for i in range(3)] + \
        [EQ(tl, sum([ITE(AND(reach[i], leaf[i]), 1, 0) for i in range(3)], 0))] + \
        [IMPLIES(AND(reach[i], leaf[i]), AND(EQ(post.sc[("Instance", "_reference")][i], D(3)),
                                             EQ(post.sc[("Instance", "_parent")][i], D(0)))) for i in range(3)]
    nm = lambda c, i: post.data[c][i][kn]
    at = ATOMS.intern
    goals["leaf-occurrences-are-named-by-their-path"] = [
        AND(nm("Instance", 0)[0], EQ(nm("Instance", 0)[1], at("u0"))), AND(nm("Instance", 1)[0], EQ(nm("Instance", 1)[1], at("u1"))),
        IMPLIES(AND(reach[2], leaf[2]), AND(nm("Instance", 2)[0], EQ(nm("Instance", 2)[1], at("u0/v")))),
        IMPLIES(NOT(reach[2]), EQ(nm("Instance", 2)[1], at("v")))]
    # nets of flattened cells: c0 belongs to A (flattened iff i0 -> A); c1 to C (flattened iff a reachable instance -> C)
    c_owner = lambda c: post.sc[("Cable", "_definition")][c]
    c1_by = {0: EQ(ref[0], D(2)), 1: EQ(ref[1], D(2)), 2: AND(reach[2], EQ(ref[2], D(2)))}
    c1_name = {0: "u0/n1", 1: "u1/n1", 2: "u0/v/n1"}
    # (the names of moved nets are built from names that were themselves built during the run; with alphabet domains
    #  that second tabulation is not exact -- DESIGN 9.5 -- so only WHERE the nets end up is decided here)
    goals["nets-of-flattened-cells-sit-in-the-top"] = [
        EQ(c_owner(0), ITE(EQ(ref[0], D(1)), D(0), D(1))),
        EQ(c_owner(1), ITE(OR(*c1_by.values()), D(0), D(2)))]
    goals["what-is-not-below-the-top-is-untouched"] = [
        IMPLIES(NOT(reach[2]), AND(EQ(post.sc[("Instance", "_parent")][2], D(1)), EQ(post.sc[("Instance", "_reference")][2], ref[2]))),
        EQ(post.sc[("Instance", "_reference")][3], D(0)), EQ(post.sc[("Netlist", "_top_instance")][0], I(3))]
    goals["well-formed-afterwards"] = [c for g, cs in spec.inv_groups(post).items() for c in cs]
    funcs = sorted(fn_ident(f) for f in ctx.funcs_seen)
    bounds = dict(u.describe(), shape={"%s/%d/%s" % k: v for k, v in shape.items()},
                  references="i0 in {A, C, LEAF}, i1 in {C, LEAF}, i2 in {C, LEAF}; C instanced at most once (uniquified)",
                  solver="z3 %s, SAT/EUF core" % z3.get_version_string())
    ok = [B(NOT(ctx.bound)), B(NOT(ctx.exc))]
    tw = {"pre_sat": M.check(A, True, 60000)[0], "returns": M.check(A, AND(NOT(ctx.exc), NOT(ctx.bound)), 120000)[0],
          "two-levels-flattened": M.check(A + ok, AND(EQ(ref[0], D(1)), EQ(ref[2], D(2))), 120000)[0]}
    if any(v != "sat" for v in tw.values()):
        return [result(name, VACUOUS, "E1/symheap", twins=tw, bounds=bounds, detail="reachability twin failed: %s %s" % (
            tw, sorted(set(ctx.bound_why))[:3]))]
    out = []
    import os as _os
    for g, cs in list(goals.items()) + [("never-raises", None)]:
        oname = name + "/" + g
        if _os.environ.get("VF_GOAL") and _os.environ["VF_GOAL"] not in g:
            continue
        if cs is None:
            st, dt, mdl = M.check(A + [B(NOT(ctx.bound))], ctx.exc, timeout_ms)
        else:
            st, dt, mdl = M.check(A + ok, NOT(AND(*cs)), timeout_ms)
        if st == "unsat":
            out.append(result(oname, DISCHARGED, "E1/symheap", queries=1, solver_s=dt, twins=tw, bounds=bounds,
                              functions=funcs, detail="unsat", wall_s=time.time() - t0, paths=1))
        elif st != "sat":
            out.append(result(oname, INCONCLUSIVE, "E1/symheap", detail="solver: %s" % st, bounds=bounds))
        else:
            state = replay.heap_to_state(pre, mdl)
            dbg = {"refs": [replay.mval(mdl, ref[i]) for i in range(3)],
                   "cables": [(replay.mval(mdl, c_owner(c)), ATOMS.vals.get(replay.mval(mdl, nm("Cable", c)[1])) if isinstance(ATOMS.vals, dict) else ATOMS.vals[replay.mval(mdl, nm("Cable", c)[1])]) for c in range(2)]}
            rp = {"engine": "E1", "property": "C09", "obligation": oname, "kind": "flatten_driver", "state": state, "debug": str(dbg),
                  "netlist": u.gid("Netlist", 0)}
            try:
                viol, txt = replay_flatten_driver(rp)
            except Exception:
                viol, txt = False, "replay crashed: " + traceback.format_exc()[-400:]
            out.append(result(oname, VIOLATED if viol else ERROR, "E1/symheap", queries=1, solver_s=dt, twins=tw,
                              bounds=bounds, functions=funcs, replay=rp if viol else None,
                              detail=txt if viol else "counterexample did not reproduce: " + txt + " | model: " + rp.get("debug", ""),
                              wall_s=time.time() - t0))
    return out


def replay_flatten_driver(rp):
    """real flatten on the real netlist; plain-python oracle from an elaboration taken before the call"""
    from spydrnet.flatten import flatten
    from vf.e1 import wellformed
    with replay.listener_config("none"):
        objs = replay.build(rp["state"])
        built, _ = replay.abstract(objs)
        diffs = replay.states_equal(rp["state"], built)
        if diffs:
            return False, "built state differs from the model: " + "; ".join(diffs[:3])
        netlist = objs[rp["netlist"]]
        top = netlist.top_instance.reference
        leaves, nets, below = {}, {}, set()

        def walk(defn, prefix):
            for ch in defn.children:
                below.add(id(ch))
                path = prefix + [ch.name]
                if ch.reference.is_leaf():
                    leaves["/".join(path)] = ch.reference
                else:
                    for cab in ch.reference.cables:
                        nets["/".join(path + [cab.name])] = cab
                    walk(ch.reference, path)
        walk(top, [])
        outside = {id(o): (o.parent, o.reference, o.name) for o in objs.values()
                   if type(o).__name__ == "Instance" and id(o) not in below and o is not netlist.top_instance}
        try:
            flatten(netlist)
        except Exception as e:
            return True, "flatten raised %s: %s" % (type(e).__name__, str(e)[:80])
        probs = []
        got = {ch.name: ch.reference for ch in top.children}
        if set(got) != set(leaves) or len(top.children) != len(leaves):
            probs.append("top holds instances %s, the leaf occurrences are %s" % (sorted(got), sorted(leaves)))
        elif any(got[k] is not leaves[k] for k in leaves):
            probs.append("a leaf occurrence changed its cell type")
        if any(not ch.reference.is_leaf() for ch in top.children):
            probs.append("a hierarchical instance remains in the top")
        top_nets = {c.name for c in top.cables}
        if not set(nets) <= top_nets:
            probs.append("nets of flattened cells missing from the top: %s (top has %s)" % (sorted(set(nets) - top_nets), sorted(top_nets)))
        for o in objs.values():
            if id(o) in outside and (o.parent, o.reference, o.name) != outside[id(o)]:
                probs.append("an instance outside the top hierarchy was changed")
        probs += wellformed.c01_problems(wellformed.closure([netlist] + list(objs.values())))[:2]
        return bool(probs), "; ".join(probs[:3]) or "flatten satisfied the statement on this netlist"


def bring_to_top_job(tier, timeout_ms=300000):
    """flatten._bring_to_top(e, add_to_name, top_definition) -- the naming/moving step of flatten -- for an instance and
    for a cable of a cell A, with the element's NAME and the path prefix BOTH symbolic over string domains chosen so that
    names contain, start with and equal prefixes ('u', 'u/v', 'u_x' under prefix 'u' or 'u/v'): afterwards the element
    is called prefix + '/' + name (its own name under the empty prefix) -- for EVERY pair of the domains, decided by z3
    over the tabulated string operations of the real code --, sits in the top definition and no longer in A; an element
    that carries an EDIF identifier gets a fresh one; nothing else changes; well-formed; no exception."""
    import spydrnet.flatten as fl
    t0 = time.time()
    M.SOLVER_CORE = "euf"
    names = ["u", "v", "u/v", "u_x", "u/", "uu"] + (["u/v/w", "/u", "U"] if tier == "thorough" else [])
    prefixes = ["", "u", "u/v", "v"] + (["u/", "uu", "U"] if tier == "thorough" else [])
    others = ["TOP", "A", "n", "k", "id0"]
    live = dict(Netlist=0, Library=0, Definition=2, Port=0, Cable=2, Wire=0, Instance=2, InnerPin=0, OuterPin=0)
    out = []
    for kind in ("Instance", "Cable"):
        name = "C09/flatten._bring_to_top{%s}" % kind.lower()
        u = Universe(live, {}, 3, keys=(".NAME", "EDIF.identifier"), atoms=tuple(names + prefixes[1:] + others))
        # definition 0 = top {instance 1 'k', cable 1 'n'}; definition 1 = A {instance 0, cable 0}: the elements to move
        shape = {("Definition", 0, "_children"): [1], ("Definition", 0, "_cables"): [1],
                 ("Definition", 1, "_children"): [0], ("Definition", 1, "_cables"): [0]}
        pre = Heap.symbolic(u).apply_shape(shape)
        at = ATOMS.intern
        kn, ke = 0, 1
        for c, i, nm in (("Definition", 0, "TOP"), ("Definition", 1, "A"), ("Instance", 1, "k"), ("Cable", 1, "n")):
            pre.data[c][i][kn] = (True, at(nm))
            pre.data[c][i][ke] = (False, 0)
        other = "Cable" if kind == "Instance" else "Instance"
        pre.data[other][0][kn] = (True, at("v"))
        pre.data[other][0][ke] = (False, 0)
        nv = z3.Int("elem_name")
        pv = z3.Int("prefix")
        pre.data[kind][0][kn] = (True, nv)
        has_id = pre.data[kind][0][ke][0]
        pre.data[kind][0][ke] = (has_id, at("id0"))
        heap = pre.copy()
        ctx = Ctx(heap, M.REAL)
        M.listeners_none(ctx)
        ctx.globals_over[("spydrnet.flatten", "mod_name_uid")] = 0
        ctx.globals_over[("spydrnet.flatten", "unique_number")] = 0
        fr = Frame(None, True, {})
        from vf.e1.sym import SAtom
        A = pre.type_constraints() + spec.inv_all(pre)
        A += [OR(*[EQ(nv, at(n)) for n in names]), OR(*[EQ(pv, at(p)) for p in prefixes])]
        A = [B(a) for a in A if a is not True]
        ctx.path_assumptions = list(A)
        ctx.prune_infeasible_raises = True
        e = Ref(u.gid(kind, 0), (kind,))
        top = Ref(u.gid("Definition", 0), ("Definition",))
        try:
            call_function(ctx, fr, fl._bring_to_top, [e, SAtom(pv, [at(p) for p in prefixes]), top])
        except Unsupported as ex:
            out.append(result(name, INCONCLUSIVE, "E1/symheap", detail="Unsupported: %s" % ex, wall_s=time.time() - t0))
            continue
        post = heap
        goals = {}
        pn = post.data[kind][0][kn]
        goals["named-prefix-slash-name-for-every-name-and-prefix"] = [pn[0]] + [
            IMPLIES(AND(EQ(nv, at(n)), EQ(pv, at(p))), EQ(pn[1], at(p + "/" + n if p != "" else n)))
            for n in names for p in prefixes]
        fld, pfld = ("_children", "_parent") if kind == "Instance" else ("_cables", "_definition")
        tl, tel = post.ls[("Definition", fld)][0]
        al, ael = post.ls[("Definition", fld)][1]
        g = u.gid(kind, 0)
        goals["moved-into-the-top-definition"] = [
            EQ(post.sc[(kind, pfld)][0], u.gid("Definition", 0)), EQ(tl, 2), EQ(al, 0),
            OR(*[AND(LT(k, tl), EQ(tel[k], g)) for k in range(len(tel))]),
            OR(*[AND(LT(k, tl), EQ(tel[k], u.gid(kind, 1))) for k in range(len(tel))])]
        pid = post.data[kind][0][ke]
        new_id = ("instance_" if kind == "Instance" else "cable_") + "sdn_flat_0"
        goals["identifier-refreshed-iff-present-and-nothing-else-changes"] = [
            EQ(pid[0], has_id), IMPLIES(has_id, EQ(pid[1], at(new_id))),
            EQ(post.data[kind][1][kn][1], pre.data[kind][1][kn][1]), EQ(post.data[other][0][kn][1], at("v")),
            EQ(post.data[other][1][kn][1], pre.data[other][1][kn][1]),
            EQ(post.sc[(other, "_parent" if other == "Instance" else "_definition")][0], u.gid("Definition", 1)),
            EQ(post.data["Definition"][0][kn][1], at("TOP")), EQ(post.data["Definition"][1][kn][1], at("A"))]
        goals["well-formed-afterwards"] = [c for gg, cs in spec.inv_groups(post).items() for c in cs]
        funcs = sorted(fn_ident(f) for f in ctx.funcs_seen)
        bounds = dict(u.describe(), shape={"%s/%d/%s" % k: v for k, v in shape.items()}, names=names, prefixes=prefixes,
                      note="name of the moved element and the path prefix symbolic over these domains; EDIF identifier "
                           "present or absent (symbolic)", solver="z3 %s" % z3.get_version_string())
        ok = [B(NOT(ctx.bound)), B(NOT(ctx.exc))]
        tw = {"pre_sat": M.check(A, True, 60000)[0], "returns": M.check(A, AND(NOT(ctx.exc), NOT(ctx.bound)), 120000)[0],
              "name-starts-with-prefix": M.check(A + ok, AND(EQ(nv, at("u/v")), EQ(pv, at("u")), has_id), 120000)[0]}
        if any(v != "sat" for v in tw.values()):
            out.append(result(name, VACUOUS, "E1/symheap", twins=tw, bounds=bounds, detail="reachability twin failed: %s %s" % (
                tw, sorted(set(ctx.bound_why))[:3])))
            continue
        for gname, cs in list(goals.items()) + [("never-raises", None)]:
            oname = name + "/" + gname
            if cs is None:
                st, dt, mdl = M.check(A + [B(NOT(ctx.bound))], ctx.exc, timeout_ms)
            else:
                st, dt, mdl = M.check(A + ok, NOT(AND(*cs)), timeout_ms)
            if st == "unsat":
                out.append(result(oname, DISCHARGED, "E1/symheap", queries=1, solver_s=dt, twins=tw, bounds=bounds,
                                  functions=funcs, detail="unsat", wall_s=time.time() - t0, paths=1))
            elif st != "sat":
                out.append(result(oname, INCONCLUSIVE, "E1/symheap", detail="solver: %s" % st, bounds=bounds))
            else:
                state = replay.heap_to_state(pre, mdl)
                rp = {"engine": "E1", "property": "C09", "obligation": oname, "kind": "bring_to_top", "state": state,
                      "element": g, "top": u.gid("Definition", 0), "prefix": ATOMS.vals[replay.mval(mdl, pv)]}
                try:
                    viol, txt = replay_bring_to_top(rp)
                except Exception:
                    viol, txt = False, "replay crashed: " + traceback.format_exc()[-400:]
                out.append(result(oname, VIOLATED if viol else ERROR, "E1/symheap", queries=1, solver_s=dt, twins=tw,
                                  bounds=bounds, functions=funcs, replay=rp if viol else None,
                                  detail=txt if viol else "counterexample did not reproduce: " + txt,
                                  wall_s=time.time() - t0))
    return out


def replay_bring_to_top(rp):
    """real _bring_to_top on the real objects; plain-python oracle"""
    import spydrnet as sdn
    import spydrnet.flatten as fl
    from vf.e1 import wellformed
    with replay.listener_config("none"):
        objs = replay.build(rp["state"])
        built, _ = replay.abstract(objs)
        diffs = replay.states_equal(rp["state"], built)
        if diffs:
            return False, "built state differs from the model: " + "; ".join(diffs[:3])
        e, top, prefix = objs[rp["element"]], objs[rp["top"]], rp["prefix"]
        old_name, had_id = e.name, "EDIF.identifier" in e
        old_home = e.parent if isinstance(e, sdn.Instance) else e.definition
        others = {id(o): (o.name if hasattr(o, "name") else None) for o in objs.values() if o is not e}
        fl.mod_name_uid = 0
        try:
            fl._bring_to_top(e, prefix, top)
        except Exception as ex:
            return True, "_bring_to_top raised %s: %s" % (type(ex).__name__, str(ex)[:80])
        probs = []
        want = prefix + "/" + old_name if prefix != "" else old_name
        if e.name != want:
            probs.append("element %r moved under prefix %r is called %r, not %r" % (old_name, prefix, e.name, want))
        home = e.parent if isinstance(e, sdn.Instance) else e.definition
        members = top.children if isinstance(e, sdn.Instance) else top.cables
        if home is not top or not any(m is e for m in members):
            probs.append("the element is not in the top definition afterwards")
        if any(m is e for m in (old_home.children if isinstance(e, sdn.Instance) else old_home.cables)):
            probs.append("the element is still listed in its old cell")
        if ("EDIF.identifier" in e) != had_id:
            probs.append("EDIF identifier appeared or vanished")
        for o in objs.values():
            if o is not e and hasattr(o, "name") and others[id(o)] != o.name:
                probs.append("another element was renamed")
        probs += wellformed.c01_problems(wellformed.closure(list(objs.values())))
        return bool(probs), "_bring_to_top: %s" % sorted(set(probs))[:4]
