"""E1 step lemmas on the EDIF reader/writer kernels (C05 / C03 / C15)."""
import time
import traceback

import z3
from vf.core import result, DISCHARGED, VIOLATED, INCONCLUSIVE, VACUOUS, ERROR, KNOWN, fn_ident, findings_for
from vf.e1.sym import (Ref, SInt, SAtom, ATOMS, NONE_ID, is_sym, AND, OR, NOT, EQ, NE, LT, LE, GE, GT, ADD, SUB,
                       MIN, MAX, B, IMPLIES, ITE, Unsupported, ite_chain)
from vf.e1.heap import Universe, Heap, SList
from vf.e1.vals import Local
from vf.e1.interp import Ctx, Frame, call_function, mro_lookup
from vf.e1 import mutators as M, spec, replay


def multibit_job(width, tier, timeout_ms=300000):
    """EdifParser.multibit_add_cable as ONE step: an existing array cable of `width` bits (symbolic base
    index, symbolic pin attachment) receives a one-wire cable carrying bit i (symbolic: below, inside,
    above the current range, with gaps).  By induction over the incoming nets this covers any arrival order."""
    from spydrnet.parsers.edif.parser import EdifParser
    import spydrnet as sdn
    t0 = time.time()
    name = "C05/EdifParser.multibit_add_cable/bit-lands-at-index-minus-base{width=%d}" % width
    span = 3 if tier == "quick" else 4
    K = width + span + 1
    u = Universe(dict(Netlist=0, Library=0, Definition=1, Port=1, Cable=2, Wire=width + 1, Instance=0,
                      InnerPin=3, OuterPin=0), dict(Wire=span), 2,
                 list_caps={("Cable", "_wires"): K, ("Port", "_pins"): 3}, atoms=("x", "y"))
    shape = {("Definition", 0, "_cables"): [0], ("Cable", 0, "_wires"): list(range(width)),
             ("Cable", 1, "_wires"): [width], ("Definition", 0, "_ports"): [0], ("Port", 0, "_pins"): [0, 1, 2]}
    pre = Heap.symbolic(u).apply_shape(shape)
    pre.sc[("Cable", "_is_scalar")][0] = False          # the existing cable is an array
    heap = pre.copy()
    ctx = Ctx(heap, M.REAL)
    M.listeners_none(ctx)
    ctx.range_cap = span + 1
    fr = Frame(None, True, {})
    L = pre.sc[("Cable", "_lower_index")][0]
    i = z3.Int("incoming_bit_index")
    E = Ref(u.gid("Cable", 0), ("Cable",))
    C = Ref(u.gid("Cable", 1), ("Cable",))
    D = Ref(u.gid("Definition", 0), ("Definition",))
    short = SAtom(z3.Int("short_name"), u.atom_ids)

    def stub_separate(c, f, args, kwargs):
        return (SInt(i), short)

    def stub_get_cables(c, f, args, kwargs):
        # contract of definition.get_cables(name): the cable carrying that name, if any (decided under C10/C13)
        return SList(1, [E])
    ctx.stubs[EdifParser.separate_name_and_index] = stub_separate
    gc, _ = mro_lookup(sdn.Definition, "get_cables")
    ctx.stubs[gc] = stub_get_cables
    A = pre.type_constraints() + spec.inv_all(pre)
    A += [GE(i, SUB(L, span)), LE(i, ADD(L, width + span - 1)), GE(i, 0), GE(L, 0)]
    kn, ki = u.keys.index(".NAME"), u.keys.index("EDIF.identifier")
    A += [pre.data["Cable"][1][kn][0], pre.data["Cable"][1][ki][0]]
    A = [B(a) for a in A if a is not True]
    selfv = Local(EdifParser, {})
    try:
        call_function(ctx, fr, EdifParser.multibit_add_cable, [selfv, D, C], owner=EdifParser)
    except Unsupported as e:
        return [result(name, INCONCLUSIVE, "E1/symheap", detail="Unsupported: %s" % e, wall_s=time.time() - t0)]
    post = heap
    # ---- independent statement of where every bit must be
    Lp = MIN(L, i)
    hi = MAX(ADD(L, width), ADD(i, 1))
    want_len = SUB(hi, Lp)
    (pl, pel) = post.ls[("Cable", "_wires")][0]
    goals = {}
    cs = [EQ(post.sc[("Cable", "_lower_index")][0], Lp), EQ(pl, want_len)]
    goals["range-covers-old-and-new-bits"] = cs
    inc_w = u.gid("Wire", width)
    (il, iel) = pre.ls[("Wire", "_pins")][width]

    def post_wire_at(pos):
        return ite_chain(pos, list(range(len(pel))), pel, NONE_ID)

    def post_pins(wt):
        lens = [x[0] for x in post.ls[("Wire", "_pins")]]
        return ite_chain(wt, u.ids("Wire"), lens, -9), [
            ite_chain(wt, u.ids("Wire"), [x[1][k] for x in post.ls[("Wire", "_pins")]], NONE_ID)
            for k in range(u.cap("Wire", "_pins"))]
    keep = []
    for k in range(width):
        b = ADD(L, k)
        w_here = post_wire_at(SUB(b, Lp))
        keep.append(EQ(w_here, u.gid("Wire", k)))        # every earlier bit keeps its absolute index
        (ol, oel) = pre.ls[("Wire", "_pins")][k]
        nl, nel = post_pins(u.gid("Wire", k))
        hit = EQ(i, b)                                     # the incoming bit joins an existing (empty or not) bit
        keep.append(IMPLIES(NOT(hit), AND(EQ(nl, ol), *[IMPLIES(LT(j, ol), EQ(nel[j], oel[j]))
                                                       for j in range(len(oel))])))
        keep.append(IMPLIES(hit, AND(EQ(nl, ADD(ol, il)),
                                     *[IMPLIES(LT(j, ol), EQ(nel[j], oel[j])) for j in range(len(oel))])))
    goals["earlier-bits-keep-index-and-pins"] = keep
    inside = AND(GE(i, L), LT(i, ADD(L, width)))
    w_i = post_wire_at(SUB(i, Lp))
    nl, nel = post_pins(w_i)
    newbit = [IMPLIES(NOT(inside), AND(EQ(w_i, inc_w), EQ(nl, il),
                                      *[IMPLIES(LT(j, il), EQ(nel[j], iel[j])) for j in range(len(iel))]))]
    # the incoming pins are on the wire at position i - base afterwards
    for j in range(len(iel)):
        newbit.append(IMPLIES(LT(j, il), OR(*[AND(LT(m, nl), EQ(nel[m], iel[j])) for m in range(len(nel))])))
    goals["incoming-bit-at-position-index-minus-base"] = newbit
    fillers = []
    for pos in range(len(pel)):
        b = ADD(Lp, pos)
        is_old = AND(GE(b, L), LT(b, ADD(L, width)))
        is_new = EQ(b, i)
        wt = pel[pos]
        nl2, _ = post_pins(wt)
        fillers.append(IMPLIES(AND(LT(pos, pl), NOT(is_old), NOT(is_new)), EQ(nl2, 0)))
    goals["missing-bits-are-present-and-empty"] = fillers
    for g, c in spec.inv_groups(post).items():
        if c and g.split(":")[0] in ("I1", "I2", "types"):
            goals["well-formed-afterwards/" + g] = c
    ok = [B(NOT(ctx.bound)), B(NOT(ctx.exc))]
    funcs = sorted(fn_ident(f) for f in ctx.funcs_seen)
    bounds = dict(u.describe(), width=width, index_range="[base-%d, base+width+%d]" % (span, span - 1),
                  stubs=["separate_name_and_index -> (symbolic index, symbolic short name) [decided by E2 kernels]",
                         "definition.get_cables(name) -> the existing cable [C10/C13 contract]"])
    tw = {"pre_sat": M.check(A, True, 60000)[0], "returns": M.check(A, AND(NOT(ctx.exc), NOT(ctx.bound)), 60000)[0]}
    out = []
    if tw["returns"] != "sat":
        return [result(name, VACUOUS, "E1/symheap", twins=tw, bounds=bounds, detail="normal return unreachable: %s %s" % (
            tw, sorted(set(ctx.bound_why))[:3]))]
    # the call must not raise for a fresh bit index (duplicates of an existing real bit are outside)
    for g, c in list(goals.items()) + [("accepted-without-error", None)]:
        oname = name + "/" + g
        if c is None:
            st, dt, mdl = M.check(A + [B(NOT(ctx.bound)), B(NE(i, L))], ctx.exc, timeout_ms)
        else:
            st, dt, mdl = M.check(A + ok + [B(NE(i, L))], NOT(AND(*c)), timeout_ms)
        if st == "unsat":
            out.append(result(oname, DISCHARGED, "E1/symheap", queries=1, solver_s=dt, twins=tw, bounds=bounds,
                              functions=funcs, detail="unsat", wall_s=time.time() - t0, paths=1))
            continue
        if st != "sat":
            out.append(result(oname, INCONCLUSIVE, "E1/symheap", detail="solver: %s" % st, bounds=bounds))
            continue
        Lv, iv = replay.mval(mdl, L), replay.mval(mdl, i)
        pins = [[replay.mval(mdl, e) - u.base["InnerPin"] for e in pre.ls[("Wire", "_pins")][k][1][:replay.mval(mdl, pre.ls[("Wire", "_pins")][k][0])]]
                for k in range(width + 1)]
        rp = {"engine": "E1", "property": "C05", "obligation": oname, "kind": "multibit", "width": width,
              "base": Lv, "index": iv, "pins": pins}
        try:
            viol, txt = replay_multibit(rp)
        except Exception:
            viol, txt = False, "replay crashed: " + traceback.format_exc()[-400:]
        if viol:
            out.append(result(oname, VIOLATED, "E1/symheap", queries=1, solver_s=dt, twins=tw, bounds=bounds,
                              functions=funcs, detail=txt, replay=rp, cex=rp, wall_s=time.time() - t0))
        else:
            out.append(result(oname, ERROR, "E1/symheap", detail="counterexample did not reproduce: " + txt))
    return out


def replay_multibit(rp):
    """real parser method on real objects: existing bus `x` with `width` bits from `base`, incoming net x[index]"""
    import spydrnet as sdn
    from spydrnet.parsers.edif.parser import EdifParser
    with replay.listener_config("manager:EDIF"):
        d = sdn.Definition(name="top")
        port = d.create_port("p", pins=3)
        e = d.create_cable("x", wires=rp["width"], is_scalar=False, lower_index=rp["base"])
        e["EDIF.identifier"] = "x"
        c = sdn.Cable(name="x[%d]" % rp["index"])
        c["EDIF.identifier"] = "x_%d_" % rp["index"] if rp["index"] >= 0 else "x_m_"
        w = c.create_wire()
        ws = list(e.wires) + [w]
        for k, pl in enumerate(rp["pins"]):
            for p in pl:
                if port.pins[p].wire is None:
                    ws[k].connect_pin(port.pins[p])
        before = {rp["base"] + k: [id(p) for p in wire.pins] for k, wire in enumerate(e.wires)}
        inc = [id(p) for p in w.pins]
        if rp["index"] < 0:
            return False, "negative bit index cannot be written as name[i]"
        raised = None
        try:
            EdifParser().multibit_add_cable(d, c)
        except Exception as ex:
            raised = ex
        if raised is not None:
            return True, "multibit_add_cable(x[%d] into x[%d..%d]) raised %s: %s" % (
                rp["index"], rp["base"], rp["base"] + rp["width"] - 1, type(raised).__name__, str(raised)[:80])
        probs = []
        lo = e.lower_index
        if lo != min(rp["base"], rp["index"]):
            probs.append("lower_index %d, expected %d" % (lo, min(rp["base"], rp["index"])))
        for b, pins in before.items():
            pos = b - lo
            now = [id(p) for p in e.wires[pos].pins] if 0 <= pos < len(e.wires) else None
            want = pins + (inc if b == rp["index"] else [])
            if now != want:
                probs.append("bit %d no longer holds its pins at position %d" % (b, pos))
        for k, wire in enumerate(e.wires):
            b = lo + k
            if b not in before and b != rp["index"] and len(wire.pins):
                probs.append("bit %d (never declared) carries pins" % b)
        pos = rp["index"] - lo
        if not (0 <= pos < len(e.wires)) or not set(inc) <= set(id(p) for p in e.wires[pos].pins):
            probs.append("incoming bit %d is not at position %d" % (rp["index"], pos))
        return bool(probs), "x[%d] into x[%d..%d]: %s" % (rp["index"], rp["base"], rp["base"] + rp["width"] - 1, probs[:3])


def libraryref_job(tier, timeout_ms=120000):
    """EdifParser.parse_libraryRef on a symbolic netlist: a libraryRef resolves to the declared library with that
    identifier (ignoring case) and an undeclared one is rejected -- never silently replaced by the current library."""
    from spydrnet.parsers.edif.parser import EdifParser
    from vf.e1 import nsmodel as NS
    t0 = time.time()
    name = "C15/EdifParser.parse_libraryRef"
    KEY = "EDIF.viewRef.cellRef.libraryRef.identifier"
    u = Universe(dict(Netlist=1, Library=2, Definition=1, Port=0, Cable=0, Wire=0, Instance=1, InnerPin=0, OuterPin=0),
                 {}, 2, keys=(".NAME", "EDIF.identifier", ".NS", KEY), atoms=("work", "WORK", "lib", "other"))
    u.ns_values = ("EDIF",)
    shape = {("Netlist", 0, "_libraries"): [0, 1], ("Library", 0, "_definitions"): [0], ("Definition", 0, "_children"): [0]}
    pre = Heap.symbolic(u).apply_shape(shape)
    pre.extra["ns"] = NS.NSState.make(u, True)
    heap = pre.copy()
    ctx = Ctx(heap, M.REAL)
    M.listeners_manager("EDIF")(ctx)
    fr = Frame(None, True, {})
    ki, kk = u.keys.index("EDIF.identifier"), u.keys.index(KEY)
    A = pre.type_constraints() + spec.inv_all(pre)
    for cs in NS.i4(pre, "EDIF").values():
        A += cs
    A += [pre.data["Library"][0][ki][0], pre.data["Library"][1][ki][0], pre.data["Instance"][0][kk][0]]
    A = [B(a) for a in A if a is not True]
    for nm in ("prefix_append", "prefix_pop", "expect", "parse_nameRef"):
        ctx.stubs[getattr(EdifParser, nm)] = lambda c, f, a, k: None
    netl = Ref(u.gid("Netlist", 0), ("Netlist",))
    cur = Ref(z3.Int("current_library"), ("Library",))
    A += [B(u.isin(cur.t, "Library"))]
    inst = Ref(u.gid("Instance", 0), ("Instance",))
    selfv = Local(EdifParser, {"elements": [netl, cur, Ref(u.gid("Definition", 0), ("Definition",)), inst]})
    try:
        ret = call_function(ctx, fr, EdifParser.parse_libraryRef, [selfv], owner=EdifParser)
    except Unsupported as e:
        return [result(name, INCONCLUSIVE, "E1/symheap", detail="Unsupported: %s" % e, wall_s=time.time() - t0)]
    wanted = pre.data["Instance"][0][kk][1]

    def lower_eq(a_term, b_term):
        rows = []
        for x in u.atom_ids:
            for y in u.atom_ids:
                if ATOMS.vals[x].lower() == ATOMS.vals[y].lower():
                    rows.append(AND(EQ(a_term, x), EQ(b_term, y)))
        return OR(*rows)
    from vf.e1.vals import raw_ref
    rt = raw_ref(ret)
    rid = ite_chain(rt, u.ids("Library"), [pre.data["Library"][i][ki][1] for i in range(2)], 0)
    declared = OR(*[lower_eq(pre.data["Library"][i][ki][1], wanted) for i in range(2)])
    goals = {
        "resolves-to-the-declared-library-with-that-identifier": ([B(NOT(ctx.exc))],
                                                                  NOT(AND(u.isin(rt, "Library"), lower_eq(rid, wanted)))),
        "undeclared-library-is-rejected": ([B(NOT(declared))], NOT(ctx.exc)),
        "declared-library-is-accepted": ([B(declared)], ctx.exc),
    }
    funcs = sorted(fn_ident(f) for f in ctx.funcs_seen)
    bounds = dict(u.describe(), libraries=2, stubs=["prefix_append/prefix_pop/expect/parse_nameRef: no-ops (token glue)"])
    tw = {"pre_sat": M.check(A, True, 60000)[0], "returns": M.check(A, NOT(ctx.exc), 60000)[0],
          "raises": M.check(A, ctx.exc, 60000)[0]}
    # ("raises" is informational: a reader that never rejects is exactly what the second goal reports)
    if tw["pre_sat"] != "sat" or tw["returns"] != "sat":
        return [result(name, VACUOUS, "E1/symheap", twins=tw, bounds=bounds, detail="reachability twin failed: %s" % tw)]
    out = []
    for g, (extra, goal) in goals.items():
        oname = name + "/" + g
        st, dt, mdl = M.check(A + [B(NOT(ctx.bound))] + extra, goal, timeout_ms)
        if st == "unsat":
            out.append(result(oname, DISCHARGED, "E1/symheap", queries=1, solver_s=dt, twins=tw, bounds=bounds,
                              functions=funcs, detail="unsat", wall_s=time.time() - t0, paths=1))
        elif st != "sat":
            out.append(result(oname, INCONCLUSIVE, "E1/symheap", detail="solver: %s" % st, bounds=bounds))
        else:
            ids = [ATOMS.vals[replay.mval(mdl, pre.data["Library"][i][ki][1])] for i in range(2)]
            rp = {"engine": "E1", "property": "C15", "obligation": oname, "kind": "libraryref", "declared": ids,
                  "current": replay.mval(mdl, cur.t) - u.base["Library"],
                  "wanted": ATOMS.vals[replay.mval(mdl, wanted)]}
            try:
                viol, txt = replay_libraryref(rp)
            except Exception:
                viol, txt = False, "replay crashed: " + traceback.format_exc()[-400:]
            out.append(result(oname, VIOLATED if viol else ERROR, "E1/symheap", queries=1, solver_s=dt, twins=tw,
                              bounds=bounds, functions=funcs, replay=rp if viol else None,
                              detail=txt if viol else "counterexample did not reproduce: " + txt,
                              wall_s=time.time() - t0))
    return out


def replay_libraryref(rp):
    """a real two-library EDIF file whose instance names library `wanted` in its libraryRef"""
    import os
    import shutil
    import tempfile
    import spydrnet as sdn
    a, b = rp["declared"]
    if a.lower() == b.lower():
        return False, "the two declared libraries collide (not a legal file)"
    cur = [a, b][rp["current"]]
    other = [a, b][1 - rp["current"]]
    lib = lambda n, cells: "(library %s (edifLevel 0) (technology (numberDefinition)) %s)" % (n, cells)
    leaf = "(cell leaf (celltype GENERIC) (view netlist (viewtype NETLIST) (interface)))"
    top = ("(cell top (celltype GENERIC) (view netlist (viewtype NETLIST) (interface) (contents "
           "(instance u1 (viewRef netlist (cellRef leaf (libraryRef %s)))))))" % rp["wanted"])
    text = ("(edif d (edifVersion 2 0 0) (edifLevel 0) (keywordMap (keywordLevel 0)) (status) %s %s "
            "(design top (cellRef top (libraryRef %s))))" % (lib(other, leaf), lib(cur, leaf + " " + top), cur))
    d = tempfile.mkdtemp(prefix="vf_c15_")
    try:
        p = os.path.join(d, "x.edf")
        open(p, "w").write(text)
        raised = None
        try:
            n = sdn.parse(p)
        except BaseException as e:
            raised = e
        declared = rp["wanted"].lower() in (a.lower(), b.lower())
        if raised is not None:
            return declared, "libraryRef %r with libraries %r declared: rejected (%s)" % (rp["wanted"], [a, b], type(raised).__name__)
        inst = next(n.get_instances("u1"))
        got = inst.reference.library["EDIF.identifier"]
        bad = (not declared) or got.lower() != rp["wanted"].lower()
        return bad, "libraryRef %r with libraries %r declared: accepted, u1 bound to library %r" % (rp["wanted"], [a, b], got)
    finally:
        shutil.rmtree(d, ignore_errors=True)


class _Recorder:
    """file object stub: records guarded write events"""


def cable_wire_name_job(width, tier, timeout_ms=120000):
    """ComposeEdif._output_name_of_cable_wire_: the bit form `rename id_i_ "name[i]"` (i = position + base index)
    is written for every wire of a bus and of a one-wire ARRAY cable; the plain form only for a true scalar --
    composed with the reader's naming kernels (E2) this keeps width, array-ness and base index on re-read."""
    from spydrnet.composers.edif.composer import ComposeEdif
    from vf.e1.ops import to_str, concat_strs
    from vf.e1.vals import to_atom
    t0 = time.time()
    name = "C03/ComposeEdif._output_name_of_cable_wire_{width=%d}" % width
    u = Universe(dict(Netlist=0, Library=0, Definition=1, Port=0, Cable=1, Wire=width, Instance=0, InnerPin=0, OuterPin=0),
                 {}, 2, keys=(".NAME", "EDIF.identifier"), atoms=("n", "N_1"))
    shape = {("Definition", 0, "_cables"): [0], ("Cable", 0, "_wires"): list(range(width))}
    pre = Heap.symbolic(u).apply_shape(shape)
    heap = pre.copy()
    ctx = Ctx(heap, M.REAL)
    M.listeners_none(ctx)
    fr = Frame(None, True, {})
    events = []

    def rec_write(c, f, args, kwargs):
        from vf.e1.interp import live
        events.append((live(c, f), "write", args[0]))

    def rec_plain(c, f, args, kwargs):
        from vf.e1.interp import live
        events.append((live(c, f), "plain", args[1]))
    ctx.stubs[ComposeEdif._output_name_of_object_] = rec_plain
    ctx.stubs[ComposeEdif._lisp_increment_] = lambda c, f, a, k: None
    ctx.stubs[ComposeEdif._lisp_decrement_] = lambda c, f, a, k: None
    out_obj = Local(_Recorder, {})
    ctx.natives[_Recorder] = None
    selfv = Local(ComposeEdif, {"_output_": out_obj, "_lisp_depth_": 0})
    # the recorder's write method
    _Recorder.write = lambda self, text: None
    ctx.stubs[_Recorder.write] = lambda c, f, args, kwargs: rec_write(c, f, args[1:], kwargs)
    ctx.local_classes = (_Recorder,)
    ctx.interp_prefixes = ("spydrnet", "vf.e1.edif_jobs")
    pos = z3.Int("wire_position")
    wire = Ref(ADD(u.base["Wire"], pos), ("Wire",))
    cab = Ref(u.gid("Cable", 0), ("Cable",))
    kn, ki = u.keys.index(".NAME"), u.keys.index("EDIF.identifier")
    L = pre.sc[("Cable", "_lower_index")][0]
    A = pre.type_constraints() + spec.inv_all(pre)
    A += [GE(pos, 0), LT(pos, width), GE(L, 0), LE(ADD(L, pos), 7), pre.data["Cable"][0][kn][0], pre.data["Cable"][0][ki][0]]
    A = [B(a) for a in A if a is not True]
    try:
        call_function(ctx, fr, ComposeEdif._output_name_of_cable_wire_, [selfv, cab, wire], owner=ComposeEdif)
    except Unsupported as e:
        return [result(name, INCONCLUSIVE, "E1/symheap", detail="Unsupported: %s" % e, wall_s=time.time() - t0)]
    is_array = OR(width > 1, NOT(pre.sc[("Cable", "_is_scalar")][0]))
    plain = OR(*[g for g, k, v in events if k == "plain"])
    writes = [(g, v) for g, k, v in events if k == "write"]
    from vf.e1.sym import SAtom as _SA
    ident = _SA(pre.data["Cable"][0][ki][1], u.atom_ids)
    nm = _SA(pre.data["Cable"][0][kn][1], u.atom_ids)
    idx = to_str(ctx, fr, SInt(ADD(L, pos)))
    want = concat_strs(ctx, fr, ["rename ", ident, "_", idx, "_", ' "', nm, "[", idx, "]", '"'])
    wrote_bit_form = OR(*[AND(g, EQ(to_atom(v).t, to_atom(want).t)) for g, v in writes])
    goals = {
        "plain-name-only-for-a-true-scalar": NOT(EQ(plain, NOT(is_array))),
        "bit-form-carries-position-plus-base-index": AND(is_array, NOT(wrote_bit_form)),
    }
    funcs = sorted(fn_ident(f) for f in ctx.funcs_seen)
    bounds = dict(u.describe(), width=width, base_index="0..7-position")
    tw = {"pre_sat": M.check(A, True, 30000)[0], "returns": M.check(A, NOT(ctx.exc), 30000)[0]}
    if tw["pre_sat"] != "sat" or tw["returns"] != "sat":
        return [result(name, VACUOUS, "E1/symheap", twins=tw, bounds=bounds, detail="reachability twin failed: %s" % tw)]
    out = []
    for g, goal in goals.items():
        oname = name + "/" + g
        st, dt, mdl = M.check(A + [B(NOT(ctx.bound)), B(NOT(ctx.exc))], goal, timeout_ms)
        if st == "unsat":
            out.append(result(oname, DISCHARGED, "E1/symheap", queries=1, solver_s=dt, twins=tw, bounds=bounds,
                              functions=funcs, detail="unsat", wall_s=time.time() - t0, paths=1))
        elif st != "sat":
            out.append(result(oname, INCONCLUSIVE, "E1/symheap", detail="solver: %s" % st, bounds=bounds))
        else:
            rp = {"engine": "E1", "property": "C03", "obligation": oname, "kind": "cable_wire_name", "width": width,
                  "is_scalar": bool(replay.mval(mdl, pre.sc[("Cable", "_is_scalar")][0])),
                  "base": replay.mval(mdl, L), "pos": replay.mval(mdl, pos)}
            try:
                viol, txt = replay_cable_wire_name(rp)
            except Exception:
                viol, txt = False, "replay crashed: " + traceback.format_exc()[-400:]
            out.append(result(oname, VIOLATED if viol else ERROR, "E1/symheap", queries=1, solver_s=dt, twins=tw,
                              bounds=bounds, functions=funcs, replay=rp if viol else None,
                              detail=txt if viol else "counterexample did not reproduce: " + txt,
                              wall_s=time.time() - t0))
    return out


def replay_cable_wire_name(rp):
    """write a real netlist holding that cable with the real composer and read it back"""
    import os
    import shutil
    import tempfile
    import spydrnet as sdn
    n = sdn.Netlist(name="d")
    lib = n.create_library("work")
    top = lib.create_definition("top")
    n.top_instance = sdn.Instance(name="top")
    n.top_instance.reference = top
    c = top.create_cable("n", wires=rp["width"], lower_index=rp["base"])
    if rp["width"] == 1:
        c.is_scalar = rp["is_scalar"]
    d = tempfile.mkdtemp(prefix="vf_c03_")
    try:
        p = os.path.join(d, "x.edf")
        sdn.compose(n, p)
        m = sdn.parse(p)
        got = [(x.name, len(x.wires), x.is_array, x.lower_index) for x in m.get_cables()]
        want = [("n", rp["width"], c.is_array, rp["base"] if c.is_array else 0)]
        return got != want, "cable n (width %d, is_array %s, base %d) re-read as %s" % (
            rp["width"], c.is_array, rp["base"], got)
    finally:
        shutil.rmtree(d, ignore_errors=True)


def port_ref_job(width, tier, timeout_ms=120000):
    """ComposeEdif._output_port_ref_ / _output_inner_pin_: for a pin of an array port the text written is
    `member <port> x` with x the POSITION of that pin in the port (what the reader's parse_member indexes
    with), whatever the other pins of the port are joined to (same net, other nets, nothing)."""
    from spydrnet.composers.edif.composer import ComposeEdif
    from vf.e1.ops import to_str
    from vf.e1.vals import to_atom
    from vf.e1.interp import live
    t0 = time.time()
    out = []
    for which in ("_output_port_ref_", "_output_inner_pin_"):
        name = "C03/ComposeEdif.%s{width=%d}" % (which, width)
        outer = which == "_output_inner_pin_"
        u = Universe(dict(Netlist=0, Library=0, Definition=1, Port=1, Cable=1, Wire=2, Instance=1 if outer else 0,
                          InnerPin=width, OuterPin=width if outer else 0),
                     {}, max(2, width), keys=(".NAME", "EDIF.identifier"), atoms=("n", "N_1"))
        shape = {("Definition", 0, "_cables"): [0], ("Cable", 0, "_wires"): [0, 1],
                 ("Definition", 0, "_ports"): [0], ("Port", 0, "_pins"): list(range(width))}
        pre = Heap.symbolic(u).apply_shape(shape)
        heap = pre.copy()
        ctx = Ctx(heap, M.REAL)
        M.listeners_none(ctx)
        fr = Frame(None, True, {})
        events = []
        ctx.stubs[ComposeEdif._lisp_increment_] = lambda c, f, a, k: None
        ctx.stubs[ComposeEdif._lisp_decrement_] = lambda c, f, a, k: None
        ctx.stubs[ComposeEdif._new_line_] = lambda c, f, a, k: None
        ctx.stubs[ComposeEdif._get_edif_name_] = lambda c, f, a, k: "P"
        out_obj = Local(_Recorder, {})
        ctx.natives[_Recorder] = None
        selfv = Local(ComposeEdif, {"_output_": out_obj, "_lisp_depth_": 0})
        _Recorder.write = lambda self, text: None
        ctx.stubs[_Recorder.write] = lambda c, f, args, kwargs: events.append((live(c, f), args[1]))
        ctx.local_classes = (_Recorder,)
        ctx.interp_prefixes = ("spydrnet", "vf.e1.edif_jobs")
        pos = z3.Int("pin_position")
        A = pre.type_constraints() + spec.inv_all(pre) + [GE(pos, 0), LT(pos, width)]
        port = Ref(u.gid("Port", 0), ("Port",))
        try:
            if outer:
                opos = z3.Int("outer_pin")
                pin = Ref(ADD(u.base["OuterPin"], opos), ("OuterPin",))
                A += [GE(opos, 0), LT(opos, width)]
                # the pin written is one of a net's pins: it is joined to a wire, belongs to the instance,
                # and mirrors the inner pin at `pos`
                for o in range(width):
                    A.append(IMPLIES(EQ(opos, o), AND(NE(pre.sc[("OuterPin", "_wire")][o], NONE_ID),
                                                      EQ(pre.sc[("OuterPin", "_inner_pin")][o],
                                                         ADD(u.base["InnerPin"], pos)))))
                call_function(ctx, fr, ComposeEdif._output_inner_pin_, [selfv, pin], owner=ComposeEdif)
            else:
                pin = Ref(ADD(u.base["InnerPin"], pos), ("InnerPin",))
                for p in range(width):
                    A.append(IMPLIES(EQ(pos, p), NE(pre.sc[("InnerPin", "_wire")][p], NONE_ID)))
                call_function(ctx, fr, ComposeEdif._output_port_ref_, [selfv, port, "c", pin], owner=ComposeEdif)
        except Unsupported as e:
            out.append(result(name, INCONCLUSIVE, "E1/symheap", detail="Unsupported: %s" % e, wall_s=time.time() - t0))
            continue
        A = [B(a) for a in A if a is not True]
        is_array = OR(width > 1, NOT(pre.sc[("Port", "_is_scalar")][0]))
        member = OR(*[AND(g, EQ(to_atom(v).t, ATOMS.intern("member "))) for g, v in events])
        want_space = " " if outer else ""
        idx_written = OR(*[AND(g, EQ(to_atom(v).t, to_atom(
            ops_concat(ctx, fr, want_space, to_str(ctx, fr, SInt(pos)))).t)) for g, v in events])
        wrong_idx = OR(*[AND(g, EQ(to_atom(v).t, ATOMS.intern(want_space + str(k))), NE(pos, k))
                         for g, v in events for k in range(width)])
        goals = {
            "member-form-exactly-for-an-array-port": NOT(EQ(member, is_array)),
            "member-index-is-the-pin-position": AND(is_array, OR(NOT(idx_written), wrong_idx)),
        }
        funcs = sorted(fn_ident(f) for f in ctx.funcs_seen)
        bounds = dict(u.describe(), width=width, wires="2 (every pin joined to either or to nothing)")
        tw = {"pre_sat": M.check(A, True, 30000)[0], "returns": M.check(A, NOT(ctx.exc), 30000)[0]}
        if tw["pre_sat"] != "sat" or tw["returns"] != "sat":
            out.append(result(name, VACUOUS, "E1/symheap", twins=tw, bounds=bounds, detail="reachability twin failed: %s" % tw))
            continue
        for g, goal in goals.items():
            oname = name + "/" + g
            st, dt, mdl = M.check(A + [B(NOT(ctx.bound)), B(NOT(ctx.exc))], goal, timeout_ms)
            if st == "unsat":
                out.append(result(oname, DISCHARGED, "E1/symheap", queries=1, solver_s=dt, twins=tw, bounds=bounds,
                                  functions=funcs, detail="unsat", wall_s=time.time() - t0, paths=1))
            elif st != "sat":
                out.append(result(oname, INCONCLUSIVE, "E1/symheap", detail="solver: %s" % st, bounds=bounds))
            else:
                wires = []
                for p in range(width):
                    if outer:
                        # the outer pin mirroring inner pin p (if any) and its wire
                        w = None
                        for o in range(width):
                            if replay.mval(mdl, pre.sc[("OuterPin", "_inner_pin")][o]) == u.gid("InnerPin", p) and \
                                    replay.mval(mdl, pre.sc[("OuterPin", "_instance")][o]) == u.gid("Instance", 0):
                                w = replay.mval(mdl, pre.sc[("OuterPin", "_wire")][o])
                    else:
                        w = replay.mval(mdl, pre.sc[("InnerPin", "_wire")][p])
                    wires.append(None if w in (None, NONE_ID) else int(w) - u.base["Wire"])
                rp = {"engine": "E1", "property": "C03", "obligation": oname, "kind": "port_ref", "width": width,
                      "outer": outer, "is_scalar": bool(replay.mval(mdl, pre.sc[("Port", "_is_scalar")][0])),
                      "pos": replay.mval(mdl, pos), "wires": wires}
                try:
                    viol, txt = replay_port_ref(rp)
                except Exception:
                    viol, txt = False, "replay crashed: " + traceback.format_exc()[-400:]
                out.append(result(oname, VIOLATED if viol else ERROR, "E1/symheap", queries=1, solver_s=dt, twins=tw,
                                  bounds=bounds, functions=funcs, replay=rp if viol else None,
                                  detail=txt if viol else "counterexample did not reproduce: " + txt,
                                  wall_s=time.time() - t0))
    return out


def ops_concat(ctx, fr, a, b):
    from vf.e1.ops import concat_strs
    return concat_strs(ctx, fr, [a, b]) if a else b


def replay_port_ref(rp):
    """the real writer on a real port whose pins are joined as in the counterexample; the index it writes is
    then resolved the way the reader does (port.pins[x]) and compared with the pin that was meant"""
    import io
    import spydrnet as sdn
    from spydrnet.composers.edif.composer import ComposeEdif
    n = sdn.Netlist(name="d")
    lib = n.create_library("work")
    leaf = lib.create_definition("leaf")
    port = leaf.create_port("p", is_scalar=rp["is_scalar"] if rp["width"] == 1 else False)
    port.create_pins(rp["width"])
    port["EDIF.identifier"] = "p"
    top = lib.create_definition("top")
    holder = top if rp["outer"] else leaf
    cab = holder.create_cable("c")
    cab.create_wires(2)
    inst = top.create_child("u", reference=leaf) if rp["outer"] else None
    pins = [inst.pins[p] for p in port.pins] if rp["outer"] else list(port.pins)
    for p, w in zip(pins, rp["wires"]):
        if w is not None:
            cab.wires[w].connect_pin(p)
    c = ComposeEdif()
    c._output_ = io.StringIO()
    c._lisp_depth_ = 0
    pin = pins[rp["pos"]]
    if rp["outer"]:
        c._output_inner_pin_(pin)
    else:
        c._output_port_ref_(port, "c", pin)
    text = c._output_.getvalue()
    import re
    m = re.search(r"\(member\s+\S+\s+(\d+)\)", text)
    is_array = port.is_array
    if is_array != bool(m):
        return True, "port is_array=%s but the writer wrote %r" % (is_array, text.strip())
    if m and int(m.group(1)) != rp["pos"]:
        return True, "pin %d of %s (pins joined to wires %s) was written as %r: the reader joins pin %s instead" % (
            rp["pos"], "the instance's port" if rp["outer"] else "the port", rp["wires"], text.strip(), m.group(1))
    return False, "writer wrote %r for pin %d" % (text.strip(), rp["pos"])


class _Tokens:
    """tokenizer stub: next() hands out the job's token sequence"""


def design_job(tier, timeout_ms=120000):
    """EdifParser.parse_design on a symbolic two-library netlist: `(design d (cellRef C (libraryRef L)))` makes the
    top instance an instance of THE cell whose EDIF identifier is C in the library whose identifier is L -- the
    display names (rename strings) play no part, whatever they are."""
    from spydrnet.parsers.edif.parser import EdifParser
    from spydrnet.ir.first_class_element import FirstClassElement
    from vf.e1.interp import live
    t0 = time.time()
    name = "C05/EdifParser.parse_design"
    u = Universe(dict(Netlist=1, Library=2, Definition=3, Port=0, Cable=0, Wire=0, Instance=0, InnerPin=0, OuterPin=0),
                 dict(Instance=1), 3, keys=(".NAME", "EDIF.identifier"), atoms=("top", "leaf", "work", "prims"))
    shape = {("Netlist", 0, "_libraries"): [0, 1], ("Library", 0, "_definitions"): [0, 1],
             ("Library", 1, "_definitions"): [2]}
    pre = Heap.symbolic(u).apply_shape(shape)
    heap = pre.copy()
    ctx = Ctx(heap, M.REAL)
    M.listeners_none(ctx)
    fr = Frame(None, True, {})
    kn, ki = u.keys.index(".NAME"), u.keys.index("EDIF.identifier")
    A = pre.type_constraints() + spec.inv_all(pre)
    D, Lb = pre.data["Definition"], pre.data["Library"]
    # a legal file: every cell / library carries an identifier, unique within its scope
    A += [D[i][ki][0] for i in range(3)] + [Lb[i][ki][0] for i in range(2)]
    A += [NE(D[0][ki][1], D[1][ki][1]), NE(Lb[0][ki][1], Lb[1][ki][1])]
    # ... and a display name (the rename string, else the identifier: set_attribute), unique within its scope too
    A += [D[i][kn][0] for i in range(3)] + [Lb[i][kn][0] for i in range(2)]
    A += [NE(D[0][kn][1], D[1][kn][1]), NE(Lb[0][kn][1], Lb[1][kn][1])]
    want_def = SAtom(z3.Int("cellRef"), u.atom_ids)
    want_lib = SAtom(z3.Int("libraryRef"), u.atom_ids)
    A += [OR(*[EQ(want_def.t, a) for a in u.atom_ids]), OR(*[EQ(want_lib.t, a) for a in u.atom_ids])]
    for nm in ("prefix_append", "prefix_pop", "expect", "set_attribute", "skip_until_next_construct", "parse_rename"):
        ctx.stubs[getattr(EdifParser, nm)] = lambda c, f, a, k: None
    ctx.stubs[EdifParser.parse_identifier] = lambda c, f, a, k: "d"
    renamed = z3.Bool("design_name_is_a_rename")
    from vf.e1.sym import mkbool as _mkb
    ctx.stubs[EdifParser.begin_construct] = lambda c, f, a, k: _mkb(renamed)
    # metadata_prefix bookkeeping (a python list kept in the instance's data) is token glue: not modelled
    real_setitem = FirstClassElement.__setitem__
    ctx.stubs[real_setitem] = lambda c, f, a, k: None
    calls = {"n": z3.IntVal(0)}

    def next_token(c, f, a, k):
        g = live(c, f)
        n = calls["n"]
        # with a rename form the closing parenthesis is consumed by one more next()
        off = ITE(renamed, 1, 0)
        tok = SAtom(ITE(EQ(n, ADD(off, 2)), want_def.t, ITE(EQ(n, ADD(off, 5)), want_lib.t, ATOMS.intern("("))),
                    tuple(sorted(set(u.atom_ids) | {ATOMS.intern("(")})))
        calls["n"] = ITE(g, ADD(n, 1), n)
        return tok
    tok = Local(_Tokens, {})
    _Tokens.next = lambda self: None
    ctx.stubs[_Tokens.next] = next_token
    ctx.natives[_Tokens] = None
    ctx.local_classes = (_Tokens,)
    ctx.interp_prefixes = ("spydrnet", "vf.e1.edif_jobs")
    netl = Ref(u.gid("Netlist", 0), ("Netlist",))
    none = lambda: Ref(NONE_ID, ("Netlist", "Instance"))
    selfv = Local(EdifParser, {"elements": SList(1, [Ref(netl.t, ("Netlist", "Instance")), none(), none()]),
                               "tokenizer": tok})
    try:
        call_function(ctx, fr, EdifParser.parse_design, [selfv], owner=EdifParser)
    except Unsupported as e:
        return [result(name, INCONCLUSIVE, "E1/symheap", detail="Unsupported: %s" % e, wall_s=time.time() - t0)]
    A = [B(a) for a in A if a is not True]
    top = heap.sc[("Netlist", "_top_instance")][0]
    inst0 = u.gid("Instance", 0)
    ref = heap.sc[("Instance", "_reference")][0]
    # the declared cell: definition d of library l with the wanted identifiers
    owner_lib = {0: 0, 1: 0, 2: 1}
    declared = OR(*[AND(EQ(D[d][ki][1], want_def.t), EQ(Lb[l][ki][1], want_lib.t)) for d, l in owner_lib.items()])
    right = OR(*[AND(EQ(ref, u.gid("Definition", d)), EQ(D[d][ki][1], want_def.t), EQ(Lb[l][ki][1], want_lib.t))
                 for d, l in owner_lib.items()])
    goals = {
        "top-is-an-instance-of-the-cell-with-that-identifier-in-that-library":
            ([B(declared), B(NOT(ctx.exc))], NOT(AND(EQ(top, inst0), right))),
        "declared-design-is-accepted": ([B(declared)], ctx.exc),
    }
    funcs = sorted(fn_ident(f) for f in ctx.funcs_seen)
    bounds = dict(u.describe(), libraries=2, cells="2 + 1", names="symbolic, independent of the identifiers",
                  stubs=["prefix_append/prefix_pop/expect/set_attribute/parse_rename/parse_identifier/skip_until_next_construct/"
                         "FirstClassElement.__setitem__ (metadata bookkeeping): no-ops",
                         "tokenizer.next: the token sequence ( cellRef C ( libraryRef L", "begin_construct: symbolic"])
    tw = {"pre_sat": M.check(A, True, 60000)[0], "returns": M.check(A + [B(declared)], NOT(ctx.exc), 60000)[0]}
    if any(v != "sat" for v in tw.values()):
        return [result(name, VACUOUS, "E1/symheap", twins=tw, bounds=bounds, detail="reachability twin failed: %s" % tw)]
    out = []
    for g, (extra, goal) in goals.items():
        oname = name + "/" + g
        st, dt, mdl = M.check(A + [B(NOT(ctx.bound))] + extra, goal, timeout_ms)
        if st == "unsat":
            out.append(result(oname, DISCHARGED, "E1/symheap", queries=1, solver_s=dt, twins=tw, bounds=bounds,
                              functions=funcs, detail="unsat", wall_s=time.time() - t0, paths=1))
        elif st != "sat":
            out.append(result(oname, INCONCLUSIVE, "E1/symheap", detail="solver: %s" % st, bounds=bounds))
        else:
            val = lambda pair: (ATOMS.vals[replay.mval(mdl, pair[1])] if replay.mval(mdl, pair[0]) else None)
            rp = {"engine": "E1", "property": "C05", "obligation": oname, "kind": "design",
                  "cells": [[val(D[d][ki]), val(D[d][kn])] for d in range(3)],
                  "libs": [[val(Lb[l][ki]), val(Lb[l][kn])] for l in range(2)],
                  "cellRef": ATOMS.vals[replay.mval(mdl, want_def.t)], "libraryRef": ATOMS.vals[replay.mval(mdl, want_lib.t)],
                  "renamed": bool(replay.mval(mdl, renamed))}
            try:
                viol, txt = replay_design(rp)
            except Exception:
                viol, txt = False, "replay crashed: " + traceback.format_exc()[-400:]
            out.append(result(oname, VIOLATED if viol else ERROR, "E1/symheap", queries=1, solver_s=dt, twins=tw,
                              bounds=bounds, functions=funcs, replay=rp if viol else None,
                              detail=txt if viol else "counterexample did not reproduce: " + txt,
                              wall_s=time.time() - t0))
    return out


def replay_design(rp):
    """a real EDIF file with those cells (identifier + rename string) and that design statement"""
    import os
    import shutil
    import tempfile
    import spydrnet as sdn
    nm = lambda ident, name: ident if name in (None, ident) else '(rename %s "%s")' % (ident, name)
    cell = lambda c: "(cell %s (celltype GENERIC) (view netlist (viewtype NETLIST) (interface)))" % nm(*c)
    lib = lambda l, cells: "(library %s (edifLevel 0) (technology (numberDefinition)) %s)" % (nm(*l), " ".join(cells))
    c, l = rp["cells"], rp["libs"]
    text = ("(edif d (edifVersion 2 0 0) (edifLevel 0) (keywordMap (keywordLevel 0)) (status) %s %s "
            "(design %s (cellRef %s (libraryRef %s))))" % (
                lib(l[0], [cell(c[0]), cell(c[1])]), lib(l[1], [cell(c[2])]),
                '(rename d "D")' if rp["renamed"] else "d", rp["cellRef"], rp["libraryRef"]))
    d = tempfile.mkdtemp(prefix="vf_c05_")
    try:
        p = os.path.join(d, "x.edf")
        open(p, "w").write(text)
        try:
            n = sdn.parse(p)
        except BaseException as e:
            return True, "design (cellRef %s (libraryRef %s)) over cells %s / libraries %s: rejected (%s: %s)" % (
                rp["cellRef"], rp["libraryRef"], c, l, type(e).__name__, str(e)[:100])
        top = n.top_instance
        got = (top.reference["EDIF.identifier"], top.reference.library["EDIF.identifier"]) if top is not None and \
            top.reference is not None else None
        bad = got != (rp["cellRef"], rp["libraryRef"])
        return bad, "design (cellRef %s (libraryRef %s)) over cells [identifier, name] %s in libraries %s: top is an instance of %s" % (
            rp["cellRef"], rp["libraryRef"], c, l, got)
    finally:
        shutil.rmtree(d, ignore_errors=True)
