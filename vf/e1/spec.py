"""Representation invariants and frame conditions stated over a Heap (independent of the
interpreter: plain quantifier-free formulas over the heap terms)."""
import itertools
from vf.e1.sym import (NONE_ID, is_sym, ITE, AND, OR, NOT, EQ, NE, LT, LE, GE, GT, ADD, IMPLIES, B)
from vf.e1.heap import CLASSES, SCALARS, LISTS, OWNERSHIP, FCE


def exists(h, cls, i):
    return LT(i, h.nxt[cls])


def ref_ok(h, t, classes, allow_none=True):
    """t is None or an existing object of one of the classes"""
    u = h.u
    alts = [EQ(t, NONE_ID)] if allow_none else []
    for c in classes:
        if u.n[c]:
            alts.append(AND(GE(t, u.base[c]), LT(t, ADD(u.base[c], h.nxt[c]))))
    return OR(*alts)


def types(h):
    u = h.u
    cs = []
    for c in CLASSES:
        for i in range(u.n[c]):
            ex = exists(h, c, i)
            if ex is False:
                continue
            for f, kind in SCALARS[c].items():
                t = h.sc[(c, f)][i]
                if isinstance(kind, tuple):
                    cs.append(IMPLIES(ex, ref_ok(h, t, kind[1])))
                elif kind == "enum":
                    cs.append(IMPLIES(ex, OR(*[EQ(t, d) for d in u.dir_ids])))
            for f, elc in LISTS.get(c, {}).items():
                ln, el = h.ls[(c, f)][i]
                cs.append(IMPLIES(ex, AND(GE(ln, 0), LE(ln, len(el)))))
                for k, e in enumerate(el):
                    cs.append(IMPLIES(AND(ex, LT(k, ln)), ref_ok(h, e, elc, allow_none=False)))
    for i in range(u.n["Instance"]):
        for p in range(u.n["InnerPin"]):
            cs.append(IMPLIES(exists(h, "Instance", i), ref_ok(h, h.pinmap[i][p], ("OuterPin",))))
    return cs


def i1(h):
    """ownership: list <-> back pointer, once each"""
    u = h.u
    out = {}
    for (P, lst, C, back) in OWNERSHIP:
        cs = []
        for p in range(u.n[P]):
            exp = exists(h, P, p)
            if exp is False:
                continue
            ln, el = h.ls[(P, lst)][p]
            for k in range(len(el)):
                inl = AND(exp, LT(k, ln))
                if inl is False:
                    continue
                # (a) every listed child names this parent
                for c in range(u.n[C]):
                    cs.append(IMPLIES(AND(inl, EQ(el[k], u.gid(C, c))),
                                      EQ(h.sc[(C, back)][c], u.gid(P, p))))
                # (b) no duplicates
                for j in range(k):
                    cs.append(IMPLIES(inl, NE(el[j], el[k])))
        # (c) every child naming a parent is listed there
        for c in range(u.n[C]):
            exc_ = exists(h, C, c)
            if exc_ is False:
                continue
            bp = h.sc[(C, back)][c]
            for p in range(u.n[P]):
                ln, el = h.ls[(P, lst)][p]
                cs.append(IMPLIES(AND(exc_, EQ(bp, u.gid(P, p))),
                                  OR(*[AND(LT(k, ln), EQ(el[k], u.gid(C, c))) for k in range(len(el))])))
        out["I1:%s.%s" % (P, lst)] = [x for x in cs if x is not True]
    return out


def stored(h, o):
    """outer pin slot o (cls-local) is the value of some instance's pin map"""
    u = h.u
    g = u.gid("OuterPin", o)
    return OR(*[AND(exists(h, "Instance", i), EQ(h.pinmap[i][p], g))
                for i in range(u.n["Instance"]) for p in range(u.n["InnerPin"])])


def i2(h):
    """connections: pin._wire <-> wire._pins, once; wires list inner pins and stored outer pins"""
    u = h.u
    a, b = [], []
    st = [stored(h, o) for o in range(u.n["OuterPin"])]
    for w in range(u.n["Wire"]):
        exw = exists(h, "Wire", w)
        if exw is False:
            continue
        ln, el = h.ls[("Wire", "_pins")][w]
        gw = u.gid("Wire", w)
        for k in range(len(el)):
            inl = AND(exw, LT(k, ln))
            if inl is False:
                continue
            for p in range(u.n["InnerPin"]):
                a.append(IMPLIES(AND(inl, EQ(el[k], u.gid("InnerPin", p))),
                                 EQ(h.sc[("InnerPin", "_wire")][p], gw)))
            for o in range(u.n["OuterPin"]):
                a.append(IMPLIES(AND(inl, EQ(el[k], u.gid("OuterPin", o))),
                                 AND(EQ(h.sc[("OuterPin", "_wire")][o], gw), st[o])))
            for j in range(k):
                a.append(IMPLIES(inl, NE(el[j], el[k])))
    for w in range(u.n["Wire"]):
        ln, el = h.ls[("Wire", "_pins")][w]
        gw = u.gid("Wire", w)
        for p in range(u.n["InnerPin"]):
            b.append(IMPLIES(AND(exists(h, "InnerPin", p), EQ(h.sc[("InnerPin", "_wire")][p], gw)),
                             OR(*[AND(LT(k, ln), EQ(el[k], u.gid("InnerPin", p)))
                                  for k in range(len(el))])))
        for o in range(u.n["OuterPin"]):
            b.append(IMPLIES(AND(exists(h, "OuterPin", o), st[o],
                                 EQ(h.sc[("OuterPin", "_wire")][o], gw)),
                             OR(*[AND(LT(k, ln), EQ(el[k], u.gid("OuterPin", o)))
                                  for k in range(len(el))])))
    return {"I2:wire-lists-pins-that-report-it": [x for x in a if x is not True],
            "I2:pin-reports-wire-that-lists-it": [x for x in b if x is not True]}


def pin_of_definition(h, p, d):
    """inner pin p (local) is in a port of definition d (local): via back pointers (I1 makes
    this equivalent to list membership)"""
    u = h.u
    port = h.sc[("InnerPin", "_port")][p]
    alts = []
    for q in range(u.n["Port"]):
        alts.append(AND(EQ(port, u.gid("Port", q)), exists(h, "Port", q),
                        EQ(h.sc[("Port", "_definition")][q], u.gid("Definition", d))))
    return OR(*alts)


def i3(h):
    """instances mirror their definition"""
    u = h.u
    refs, keys, vals = [], [], []
    for d in range(u.n["Definition"]):
        for i in range(u.n["Instance"]):
            exi = exists(h, "Instance", i)
            exd = exists(h, "Definition", d)
            member = h.refs[d][i]
            want = AND(exi, exd, EQ(h.sc[("Instance", "_reference")][i], u.gid("Definition", d)))
            refs.append(EQ(member, want) if (is_sym(member) or is_sym(want)) else (member == want))
    for i in range(u.n["Instance"]):
        exi = exists(h, "Instance", i)
        if exi is False:
            continue
        ref = h.sc[("Instance", "_reference")][i]
        for p in range(u.n["InnerPin"]):
            v = h.pinmap[i][p]
            has = NE(v, NONE_ID)
            want = AND(exists(h, "InnerPin", p),
                       OR(*[AND(EQ(ref, u.gid("Definition", d)), pin_of_definition(h, p, d))
                            for d in range(u.n["Definition"])]))
            keys.append(IMPLIES(exi, EQ(has, want) if (is_sym(has) or is_sym(want)) else has == want))
            for o in range(u.n["OuterPin"]):
                vals.append(IMPLIES(AND(exi, EQ(v, u.gid("OuterPin", o))),
                                    AND(EQ(h.sc[("OuterPin", "_instance")][o], u.gid("Instance", i)),
                                        EQ(h.sc[("OuterPin", "_inner_pin")][o], u.gid("InnerPin", p)))))
    return {"I3:reference-sets": [x for x in refs if x is not True],
            "I3:one-outer-pin-per-inner-pin": [x for x in keys if x is not True],
            "I3:outer-pin-names-instance-and-inner-pin": [x for x in vals if x is not True]}


def inv_groups(h, with_types=True):
    g = {}
    if with_types:
        g["types"] = [x for x in types(h) if x is not True]
    g.update(i1(h))
    g.update(i2(h))
    g.update(i3(h))
    return g


def inv_all(h):
    out = []
    for v in inv_groups(h).values():
        out.extend(v)
    return out


# ------------------------------------------------------------------------------------------------
def frame_groups(pre, post, classes=None):
    """equality of every field of every pre-existing (live) object, all columns included (so a
    residue of a freshly allocated object in a live object's field shows up as a difference)"""
    u = pre.u
    out = {}

    def add(name, c):
        if c is True:
            return
        out.setdefault(name, []).append(c)
    for c in CLASSES:
        if classes and c not in classes:
            continue
        nl = u.live.get(c, 0)
        for f in SCALARS[c]:
            for i in range(nl):
                add("frame:%s.%s" % (c, f), EQ(pre.sc[(c, f)][i], post.sc[(c, f)][i]))
        for f in LISTS.get(c, {}):
            for i in range(nl):
                (l0, e0), (l1, e1) = pre.ls[(c, f)][i], post.ls[(c, f)][i]
                add("frame:%s.%s" % (c, f), EQ(l0, l1))
                for k in range(len(e0)):
                    add("frame:%s.%s" % (c, f), IMPLIES(LT(k, l0), EQ(e0[k], e1[k])))
    for d in range(u.live.get("Definition", 0)):
        for i in range(u.n["Instance"]):
            add("frame:Definition._references", EQ(pre.refs[d][i], post.refs[d][i]))
    for i in range(u.live.get("Instance", 0)):
        for p in range(u.n["InnerPin"]):
            add("frame:Instance._pins", EQ(pre.pinmap[i][p], post.pinmap[i][p]))
    for c in FCE:
        for i in range(u.live.get(c, 0)):
            for k in range(len(u.keys)):
                (p0, v0), (p1, v1) = pre.data[c][i][k], post.data[c][i][k]
                add("frame:%s._data" % c, EQ(p0, p1))
                add("frame:%s._data" % c, IMPLIES(p0, EQ(v0, v1)))
    return out
