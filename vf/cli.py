"""./check <ID> --tier quick|thorough   |   ./check <ID> --replay <path>"""
import argparse
import importlib
import json
import os
import sys
import time

from vf import core
from vf.core import (DISCHARGED, VIOLATED, INCONCLUSIVE, VACUOUS, ERROR, KNOWN, VERIF,
                     EXIT_OK, EXIT_VIOLATION, EXIT_HARNESS)


def do_replay(prop, path):
    rp = json.load(open(path))
    if rp.get("engine") == "E2":
        from vf.e2.runner import native_replay
        os.environ["VF_TIER"] = rp.get("tier", "quick")
        os.environ.update({k: str(v) for k, v in rp.get("env", {}).items()})
        viol, txt = native_replay(os.path.join(VERIF, "kernels", rp["file"] + ".py"), rp["fn"],
                                  rp["kwargs"])
    elif rp.get("kind") == "compare":
        from vf.e1.compare_jobs import replay_compare
        viol, txt = replay_compare(rp)
    elif rp.get("kind") == "multibit":
        from vf.e1.edif_jobs import replay_multibit
        viol, txt = replay_multibit(rp)
    elif rp.get("kind") == "merge_wires":
        from vf.e1.eblif_jobs import replay_merge
        viol, txt = replay_merge(rp)
    elif rp.get("kind") == "libraryref":
        from vf.e1.edif_jobs import replay_libraryref
        viol, txt = replay_libraryref(rp)
    elif rp.get("kind") == "design":
        from vf.e1.edif_jobs import replay_design
        viol, txt = replay_design(rp)
    elif rp.get("kind") == "concat_read":
        from vf.e1.verilog_jobs import replay_concat_read
        viol, txt = replay_concat_read(rp)
    elif rp.get("kind") == "port_ref":
        from vf.e1.edif_jobs import replay_port_ref
        viol, txt = replay_port_ref(rp)
    elif rp.get("kind") == "cable_wire_name":
        from vf.e1.edif_jobs import replay_cable_wire_name
        viol, txt = replay_cable_wire_name(rp)
    elif rp.get("kind") == "trace":
        from vf.e1.hier_jobs import replay_trace
        viol, txt = replay_trace(rp)
    elif rp.get("kind") == "occurrences":
        from vf.e1.hier_jobs import replay_occurrences
        viol, txt = replay_occurrences(rp)
    elif rp.get("kind") == "redo_connections":
        from vf.e1.flatten_jobs import replay_redo
        viol, txt = replay_redo(rp)
    elif rp.get("kind") == "is_unique":
        from vf.e1.flatten_jobs import replay_is_unique
        viol, txt = replay_is_unique(rp)
    elif rp.get("kind") == "redo_connections_bus":
        from vf.e1.flatten_jobs import replay_redo_bus
        viol, txt = replay_redo_bus(rp)
    elif rp.get("kind") == "namemap":
        from vf.e1.hier_jobs import replay_namemap
        viol, txt = replay_namemap(rp)
    elif rp.get("kind") == "connect_two_models":
        from vf.e1.eblif_jobs import replay_connect_two_models
        viol, txt = replay_connect_two_models(rp)
    elif rp.get("kind") == "eblif_compose":
        from vf.e1.compose_jobs import replay_eblif_compose
        viol, txt = replay_eblif_compose(rp)
    elif rp.get("kind") == "selection":
        from vf.e1.hier_jobs import replay_selection
        viol, txt = replay_selection(rp)
    elif rp.get("kind") == "flat_query":
        from vf.e1.query_jobs import replay_flat_query
        viol, txt = replay_flat_query(rp)
    elif rp.get("kind") == "flatten_driver":
        from vf.e1.flatten_jobs import replay_flatten_driver
        viol, txt = replay_flatten_driver(rp)
    elif rp.get("kind") == "bring_to_top":
        from vf.e1.flatten_jobs import replay_bring_to_top
        viol, txt = replay_bring_to_top(rp)
    elif rp.get("kind") == "edif_net_counts":
        from vf.e1.compose_jobs import replay_edif_net_counts
        viol, txt = replay_edif_net_counts(rp)
    elif rp.get("kind") == "port_map":
        from vf.e1.verilog_jobs import replay_port_map
        viol, txt = replay_port_map(rp)
    elif rp.get("kind") == "writer_injective":
        from vf.e1.compose_jobs import replay_writer_injective
        viol, txt = replay_writer_injective(rp)
    elif rp.get("kind") == "hpins":
        from vf.e1.hier_jobs import replay_hpins
        viol, txt = replay_hpins(rp)
    elif rp.get("kind") == "uniquify":
        from vf.e1.flatten_jobs import replay_uniquify
        viol, txt = replay_uniquify(rp)
    elif rp.get("kind") == "make_unique":
        from vf.e1.flatten_jobs import replay_make_unique
        viol, txt = replay_make_unique(rp)
    elif rp.get("kind") == "concatenation":
        from vf.e1.verilog_jobs import replay_concatenation
        viol, txt = replay_concatenation(rp)
    elif rp.get("kind") == "const_two_modules":
        from vf.e1.verilog_jobs import replay_const_two_modules
        viol, txt = replay_const_two_modules(rp)
    elif rp.get("kind") == "get_wires":
        from vf.e1.verilog_jobs import replay_get_wires
        viol, txt = replay_get_wires(rp)
    elif rp.get("kind") == "policy":
        from vf.e1.parser_jobs import replay_policy
        viol, txt = replay_policy(rp)
    else:
        from vf.e1.replay import run_replay
        viol, txt = run_replay(rp)
    print("replay %s: %s -> %s" % (path, "VIOLATES" if viol else "holds", txt))
    if viol:
        print("VIOLATION property=%s replay=%s" % (prop, path))
        return EXIT_VIOLATION
    return EXIT_OK


def main(argv=None):
    ap = argparse.ArgumentParser()
    ap.add_argument("prop")
    ap.add_argument("--tier", default=os.environ.get("VERIF_TIER", "quick"),
                    choices=["quick", "thorough"])
    ap.add_argument("--replay")
    ap.add_argument("--only", help="substring filter on job names (debugging)")
    ap.add_argument("--workers", type=int, default=int(os.environ.get("VF_WORKERS", "16")))
    a = ap.parse_args(argv)
    prop = a.prop
    if a.replay:
        return do_replay(prop, a.replay)
    seed = int(os.environ.get("VERIF_SEED", "0") or 0)
    t0 = time.time()
    mod = importlib.import_module("vf.props." + prop)
    jobs = mod.jobs(a.tier)
    for j in jobs:
        j.setdefault("args", {})
    if a.only:
        jobs = [j for j in jobs if a.only in j["name"]]
    print("[%s] tier=%s jobs=%d workers=%d" % (prop, a.tier, len(jobs), a.workers), flush=True)

    def log(r):
        tag = {DISCHARGED: "ok  ", KNOWN: "KNWN", VIOLATED: "VIOL", INCONCLUSIVE: "INC ",
               VACUOUS: "VAC ", ERROR: "ERR "}[r["status"]]
        print("  %s %-70s q=%-3d %6.1fs  %s" % (tag, r["name"][:70], r.get("queries", 0),
                                                r.get("wall_s", 0.0),
                                                r.get("detail", "")[:160].replace("\n", " ")),
              flush=True)

    results = core.run_jobs(jobs, workers=a.workers, log=log)
    wall = time.time() - t0
    rc = EXIT_OK
    os.makedirs(os.path.join(VERIF, "replays", prop), exist_ok=True)
    seen_known = set()
    for r in results:
        if r["status"] == KNOWN and r["finding"] not in seen_known:
            seen_known.add(r["finding"])
            print("KNOWN-FINDING: property=%s %s [%s]" % (prop, r["detail"][:300], r["finding"]))
    for r in results:
        if r["status"] == INCONCLUSIVE or r["status"] == VACUOUS:
            print("INCONCLUSIVE obligation=%s (%s) %s" % (r["name"], r["status"], r["detail"][:200]))
    for r in results:
        if r["status"] == VIOLATED:
            safe = "".join(c if c.isalnum() or c in "._-" else "_" for c in r["name"])
            if len(safe) > 110:
                import hashlib
                safe = safe[:100] + "_" + hashlib.sha1(r["name"].encode()).hexdigest()[:8]
            path = os.path.join(VERIF, "replays", prop, safe + ".json")
            rp = dict(r.get("replay") or {})
            rp["tier"] = a.tier
            rp["detail"] = r["detail"]
            json.dump(rp, open(path, "w"), indent=1, default=str)
            print("VIOLATION property=%s replay=%s" % (prop, path))
            print("   " + r["detail"][:1000])
            rc = EXIT_VIOLATION
    errs = [r for r in results if r["status"] == ERROR]
    for r in errs:
        print("HARNESS-ERROR obligation=%s %s" % (r["name"], r["detail"][:1500]))
    decided = [r for r in results if r["status"] in (DISCHARGED, KNOWN, VIOLATED)]
    if rc == EXIT_OK and (errs or not decided):
        rc = EXIT_HARNESS
    core.write_evidence(prop, a.tier, seed, results, wall, getattr(mod, "ASSUMPTIONS", []),
                        getattr(mod, "extra_evidence", lambda rs: {})(results))
    n = len(results)
    print("[%s] %d obligations: %d discharged, %d known, %d violated, %d inconclusive, %d errors; "
          "%.1fs wall" % (prop, n, sum(r["status"] == DISCHARGED for r in results),
                          sum(r["status"] == KNOWN for r in results),
                          sum(r["status"] == VIOLATED for r in results),
                          sum(r["status"] in (INCONCLUSIVE, VACUOUS) for r in results), len(errs),
                          wall))
    return rc


if __name__ == "__main__":
    sys.exit(main())
