"""E2 harnesses for C17: EdififyNames on symbolic sibling names; the legality oracle is the EDIF
reader's own rule (EdifNamespace._check_EDIF_identifier)."""
import os
import re
import spydrnet as sdn
from spydrnet.composers.edif.edifify_names import EdififyNames
from spydrnet.composers.edif.composer import ComposeEdif
from spydrnet.plugins.namespace_manager.edif_namespace import EdifNamespace

QUICK = os.environ.get("VF_TIER", "quick") != "thorough"
L = int(os.environ.get("VF_L", "0")) or (3 if QUICK else 4)
ALPHA = "aA_1-[ $"
RX = re.compile("[aA_1\\-\\[ $]{1,%d}" % L)
RX2 = re.compile("[aA_1\\-]{1,%d}" % L)
legal = EdifNamespace._check_EDIF_identifier
KFIX = int(os.environ.get("VF_K", "-1"))
FIRST = ["a", "A", "a_", "a-", "_a", "1", "aA", "a_sdn_1_", "A_SDN_1_", "a1", "a_1", "-"]


# the naming plug-in (decided under C10) does not take part: no listener is registered in this
# process, so that the renamer is analysed on its own
from spydrnet.plugins import namespace_manager as _nm
try:
    _nm.deregister_all_listeners()
except AssertionError:      # already deregistered (the harness file is loaded more than once)
    pass


def _element(name):
    e = sdn.Instance()
    e._data[".NAME"] = name
    return e


def h_single_name_becomes_legal(name: str) -> bool:
    """
    pre: RX.fullmatch(name)
    pre: True  # EXCLUSIONS
    post: _ == True
    """
    e = _element(name)
    ident = EdififyNames().make_valid(e, [e])
    return bool(legal(ident))


def h_two_siblings_distinct_ignoring_case(k: int, n2: str, swap: bool) -> bool:
    """
    pre: 0 <= k < 12 and (KFIX < 0 or k == KFIX)
    pre: RX2.fullmatch(n2) and n2 != FIRST[k]
    pre: True  # EXCLUSIONS
    post: _ == True
    """
    n1 = FIRST[k]
    if swap:
        n1, n2 = n2, n1
    # processed in list order exactly as ComposeEdif._edifify_netlist does
    e1, e2 = _element(n1), _element(n2)
    sibs = [e1, e2]
    helper = EdififyNames()
    comp = ComposeEdif.__new__(ComposeEdif)
    comp._add_rename_property(e1, sibs, helper)
    comp._add_rename_property(e2, sibs, helper)
    i1, i2 = e1._data["EDIF.identifier"], e2._data["EDIF.identifier"]
    if not (legal(i1) and legal(i2)):
        return False
    if i1.lower() == i2.lower():
        return False
    # the original name is recorded (rename flag) exactly when the identifier differs from it
    return (("EDIF.rename" in e1._data) == (i1 != n1)) and (("EDIF.rename" in e2._data) == (i2 != n2))


def h_existing_identifier_is_respected(k: int, n2: str, first: bool) -> bool:
    """
    pre: 0 <= k < 12 and (KFIX < 0 or k == KFIX)
    pre: RX2.fullmatch(n2) and n2 != FIRST[k]
    pre: True  # EXCLUSIONS
    post: _ == True
    """
    n1 = FIRST[k]
    # one sibling already carries an identifier (from an earlier write or from the reader); the
    # newcomer may sit before or after it in the list
    old, new = _element(n1), _element(n2)
    helper = EdififyNames()
    comp = ComposeEdif.__new__(ComposeEdif)
    comp._add_rename_property(old, [old], helper)
    sibs = [new, old] if first else [old, new]
    for e in sibs:
        comp._add_rename_property(e, sibs, helper)
    i1, i2 = old._data["EDIF.identifier"], new._data["EDIF.identifier"]
    return bool(legal(i1) and legal(i2) and i1.lower() != i2.lower())


def h_long_names_fit(n: int, tail: int, amp: bool) -> bool:
    """
    pre: 250 <= n <= 262
    pre: 0 <= tail <= 2
    pre: True  # EXCLUSIONS
    post: _ == True
    """
    # names around the 255/256 character limit, with and without a trailing _sdn_N_ counter and
    # with a first character that needs the '&' escape
    body = ("1" if amp else "a") + "b" * (n - 1)
    name = body + ["", "_sdn_7_", "_sdn_12_"][tail]
    e = _element(name)
    ident = EdififyNames().make_valid(e, [e])
    return bool(legal(ident))


for _f in (h_single_name_becomes_legal, h_two_siblings_distinct_ignoring_case,
           h_existing_identifier_is_respected, h_long_names_fit):
    _f.encodes = [EdififyNames.make_valid, EdififyNames._length_fix, EdififyNames._characters_good,
                  EdififyNames._characters_fix, EdififyNames._conflicts_good,
                  EdififyNames._conflicts_fix, ComposeEdif._add_rename_property,
                  EdifNamespace._check_EDIF_identifier]
    _f.bounds = {"max_name_len": L, "alphabet_single": ALPHA, "alphabet_siblings": "aA_1-",
                 "long_name_lengths": "250..262 (+ suffix)",
                 "first_sibling_table": FIRST}
