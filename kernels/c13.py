"""E2 harnesses for C13: the pattern matcher every get_* / get_h* query funnels through.

The pattern is drawn from a fixed table by a symbolic index, the value is a symbolic string; the
oracle is a hand-written language predicate per table entry (sharing no code with
spydrnet.util.patterns, fnmatch or re).  CrossHair/z3 decide the claim for every value inside
the bound.
"""
import os
import re
from spydrnet.util.patterns import _value_matches_pattern, _is_pattern_absolute

QUICK = os.environ.get("VF_TIER", "quick") != "thorough"
L = int(os.environ.get("VF_L", "0")) or (3 if QUICK else 4)
LIT = "aAbB*"
RX = re.compile("[aAbB*]{0,%d}" % L)     # value domain, stated as a regular constraint (no per-character forking)
CASEFIX = int(os.environ.get("VF_CASE", "-1"))   # is_case fixed by the job (cube split), -1: symbolic
KFIX = int(os.environ.get("VF_K", "-1"))  # one job per table entry: k is fixed per process

GLOBS = ["a", "A", "a*", "*b", "?", "a?b", "*", "", "A*", "?*", "ab", "*a*", "B?"]


def _glang(k: int, v: str) -> bool:
    """language of GLOBS[k] (case-sensitive reading)"""
    if k == 0:
        return v == "a"
    if k == 1:
        return v == "A"
    if k == 2:
        return v.startswith("a")
    if k == 3:
        return v.endswith("b")
    if k == 4:
        return len(v) == 1
    if k == 5:
        return len(v) == 3 and v[0] == "a" and v[2] == "b"
    if k == 6:
        return True
    if k == 7:
        return v == ""
    if k == 8:
        return v.startswith("A")
    if k == 9:
        return len(v) >= 1
    if k == 10:
        return v == "ab"
    if k == 11:
        return "a" in v
    if k == 12:
        return len(v) == 2 and v[0] == "B"
    return False


GLOBS_LOWER = [g.lower() for g in GLOBS]


def _glang_nocase(k: int, v: str) -> bool:
    """language of GLOBS[k] when letter case is ignored: lower both sides"""
    lv = v.lower()
    if k == 0 or k == 1:
        return lv == "a"
    if k == 2 or k == 8:
        return lv.startswith("a")
    if k == 3:
        return lv.endswith("b")
    if k == 5:
        return len(lv) == 3 and lv[0] == "a" and lv[2] == "b"
    if k == 10:
        return lv == "ab"
    if k == 11:
        return "a" in lv
    if k == 12:
        return len(lv) == 2 and lv[0] == "b"
    return _glang(k, v)


def h_glob_case_sensitive(value: str, k: int) -> bool:
    """
    pre: RX.fullmatch(value)
    pre: 0 <= k < 13 and (KFIX < 0 or k == KFIX)
    pre: True  # EXCLUSIONS
    post: _ == True
    """
    got = bool(_value_matches_pattern(value, GLOBS[k], True, False))
    return got == _glang(k, value)


def h_glob_ignore_case(value: str, k: int) -> bool:
    """
    pre: RX.fullmatch(value)
    pre: 0 <= k < 13 and (KFIX < 0 or k == KFIX)
    pre: True  # EXCLUSIONS
    post: _ == True
    """
    got = bool(_value_matches_pattern(value, GLOBS[k], False, False))
    return got == _glang_nocase(k, value)


def h_none_value_is_empty(k: int, is_case: bool, is_re: bool) -> bool:
    """
    pre: 0 <= k < 13 and (KFIX < 0 or k == KFIX)
    pre: True  # EXCLUSIONS
    post: _ == True
    """
    if is_re:
        got = bool(_value_matches_pattern(None, REGEXES[k % 8], is_case, True))
        return got == _lang(k % 8, "")
    got = bool(_value_matches_pattern(None, GLOBS[k], is_case, False))
    return got == _glang(k, "")


def h_absolute_means_equality(value: str, k: int, is_case: bool, is_re: bool) -> bool:
    """
    pre: RX.fullmatch(value)
    pre: 0 <= k < 13 and (KFIX < 0 or k == KFIX)
    pre: True  # EXCLUSIONS
    post: _ == True
    """
    pattern = GLOBS[k]
    absolute = _is_pattern_absolute(pattern, is_case, is_re)
    spec = is_case and (not is_re) and ("*" not in pattern) and ("?" not in pattern)
    if bool(absolute) != spec:
        return False
    if absolute:
        # the accelerated exact lookup is only sound if the scan path means equality here
        return bool(_value_matches_pattern(value, pattern, is_case, is_re)) == (value == pattern)
    return True


# bus-bit names carry brackets ("data[3]", hierarchical wire names): only * and ? are wildcards (as documented),
# every other character of a non-regex pattern -- brackets included -- stands for itself
BR_GLOBS = ["a[b]", "[a]", "?[b]", "a[*", "]a", "a[b]*", "A[B]"]
# value domain: every string of the shape  [aA]? "["? [bB]? "]"? [aA]?  (108 strings: "ab", "a[b]", "[a]", "]a", "A[B]a", ...)
RXB = re.compile("[aA]?\\[?[bB]?\\]?[aA]?")


def _brlang(k: int, v: str, nocase: bool) -> bool:
    if nocase:
        v = v.lower()
    if k == 0:
        return v == "a[b]"
    if k == 1:
        return v == "[a]"
    if k == 2:
        return len(v) == 4 and v[1:] == "[b]"
    if k == 3:
        return v.startswith("a[")
    if k == 4:
        return v == "]a"
    if k == 5:
        return v.startswith("a[b]")
    if k == 6:
        return v == ("a[b]" if nocase else "A[B]")
    return False


def h_brackets_are_literal(value: str, k: int, is_case: bool) -> bool:
    """
    pre: RXB.fullmatch(value)
    pre: 0 <= k < 7 and (KFIX < 0 or k == KFIX)
    pre: CASEFIX < 0 or is_case == (CASEFIX == 1)
    pre: True  # EXCLUSIONS
    post: _ == True
    """
    got = bool(_value_matches_pattern(value, BR_GLOBS[k], is_case, False))
    return got == _brlang(k, value, not is_case)


# fixed regular expressions with hand-written languages (values over LIT, no newline)
REGEXES = ["a", "a.*", "[ab]", "a|bb", "A?b", ".", "(a", "ab+"]


def _lang(k: int, v: str) -> bool:
    if k == 0:
        return v == "a"
    if k == 1:
        return v.startswith("a")
    if k == 2:
        return v == "a" or v == "b"
    if k == 3:
        return v == "a" or v == "bb"
    if k == 4:
        return v == "b" or v == "Ab"
    if k == 5:
        return len(v) == 1
    if k == 6:      # not a regular expression: matches nothing
        return False
    if k == 7:
        return len(v) >= 2 and v[0] == "a" and all(c == "b" for c in v[1:])
    return False


def _lang_nocase(k: int, v: str) -> bool:
    lv = v.lower()
    if k == 4:
        return lv == "b" or lv == "ab"
    return _lang(k, lv)


def h_regex_fullmatch(value: str, k: int, is_case: bool) -> bool:
    """
    pre: RX.fullmatch(value)
    pre: 0 <= k < 8 and (KFIX < 0 or k == KFIX)
    pre: True  # EXCLUSIONS
    post: _ == True
    """
    got = bool(_value_matches_pattern(value, REGEXES[k], is_case, True))
    if is_case:
        return got == _lang(k, value)
    return got == _lang_nocase(k, value)


import copy as _copy
import spydrnet.util.patterns as _pm
_IMPORT_STATE = {n: _copy.deepcopy(v) for n, v in vars(_pm).items()
                 if isinstance(v, (dict, list, set)) and not n.startswith("__")}


def _fresh_process():
    """a history starts in a fresh process: module-level containers of the matcher's module are
    put back to their import-time contents (anything they accumulate afterwards is query history)"""
    for n, v in _IMPORT_STATE.items():
        cur = getattr(_pm, n)
        cur.clear()
        if isinstance(cur, dict):
            cur.update(_copy.deepcopy(v))
        elif isinstance(cur, list):
            cur.extend(_copy.deepcopy(v))
        else:
            cur |= _copy.deepcopy(v)


def h_answers_do_not_depend_on_history(value: str, k: int, first_case: bool, is_re: bool) -> bool:
    """
    pre: RX.fullmatch(value)
    pre: 0 <= k < 8 and (KFIX < 0 or k == KFIX)
    pre: True  # EXCLUSIONS
    post: _ == True
    """
    # the same pattern asked with different case options in one process: each answer must be
    # what a fresh process would answer (no state may leak between queries), in both orders
    _fresh_process()
    pat = REGEXES[k] if is_re else GLOBS[k]
    r1 = bool(_value_matches_pattern(value, pat, first_case, is_re))
    r2 = bool(_value_matches_pattern(value, pat, not first_case, is_re))
    r3 = bool(_value_matches_pattern(value, pat, first_case, is_re))
    if r1 != r3:
        return False
    if is_re:
        w1 = _lang(k, value) if first_case else _lang_nocase(k, value)
        w2 = _lang_nocase(k, value) if first_case else _lang(k, value)
        return r1 == w1 and r2 == w2
    # (the case-insensitive glob reading is decided by h_glob_ignore_case)
    if first_case:
        return r1 == _glang(k, value)
    return r2 == _glang(k, value)


for _f in (h_glob_case_sensitive, h_glob_ignore_case, h_none_value_is_empty,
           h_absolute_means_equality, h_regex_fullmatch, h_answers_do_not_depend_on_history,
           h_brackets_are_literal):
    _f.encodes = [_value_matches_pattern, _is_pattern_absolute]
    _f.bounds = {"max_value_len": L, "value_alphabet": LIT, "glob_table": GLOBS,
                 "regex_table": REGEXES, "bracket_glob_table": BR_GLOBS,
                 "bracket_value_domain": "[aA]?\\[?[bB]?\\]?[aA]? (108 strings)"}
