"""E2 harnesses for C06: attribute groups in a module body reach the item they precede.

Driven at the unit: the real VerilogParser.parse_module_body (with parse_star_property and parse_cable_declaration)
reads a module body rendered by an independent writer from a symbolic structure; the token stream is the real
TokenFactory fed character by character (as in kernels/c04.py)."""
import os
import re
import sys
import vf
sys.path.insert(0, os.path.join(os.path.dirname(os.path.dirname(os.path.abspath(vf.__file__))), "kernels"))
from c04 import _tokens, RX, KEYS
from spydrnet.parsers.verilog.parser import VerilogParser
from spydrnet.parsers.verilog.tokenizer import VerilogTokenizerSimple

QUICK = os.environ.get("VF_TIER", "quick") != "thorough"
KFIX = int(os.environ.get("VF_K", "-1"))      # structure code g0 + 4*g1 + 16*g2 fixed by the job (cube split)


def _body(text):
    import spydrnet as sdn
    p = VerilogParser()
    p.tokenizer = VerilogTokenizerSimple(_tokens(text))
    nl = sdn.Netlist()
    lib = nl.create_library("work")
    d = lib.create_definition("m")
    p.netlist, p.current_library, p.current_definition = nl, lib, d
    p.parse_module_body()
    return d


def h_attribute_groups_reach_the_item_they_precede(g0: int, g1: int, g2: int, m0: int, m1: int, m2: int, v: str) -> bool:
    """
    pre: 0 <= g0 <= 3 and 0 <= g1 <= 3 and 0 <= g2 <= 3
    pre: KFIX < 0 or g0 + 4 * g1 + 16 * g2 == KFIX
    pre: 1 <= m0 <= 2 and 1 <= m1 <= 2 and 1 <= m2 <= 2
    pre: RX.fullmatch(v)
    pre: True  # EXCLUSIONS
    post: _ == True
    """
    # key i goes into attribute group g_i (1..3; 0 = absent), as 'key' (m_i = 1) or 'key = v' (m_i = 2); the non-empty
    # groups are written one after the other in front of 'wire w;', followed by a bare 'reg r;'.  The reader must give
    # w the union of all groups (Verilog-2005 3.8: several attribute instances may precede an item) and r none.
    gs, ms = (g0, g1, g2), (m0, m1, m2)
    text, want = "", {}
    for g in (1, 2, 3):
        ents = [KEYS[i] if ms[i] == 1 else KEYS[i] + " = " + v for i in range(3) if gs[i] == g]
        if ents:
            text += "(* " + ", ".join(ents) + " *) "
            for i in range(3):
                if gs[i] == g:
                    want[KEYS[i]] = None if ms[i] == 1 else v
    text += "wire w;\nreg r;\nendmodule\n"
    d = _body(text)
    cables = {c.name: c for c in d.cables}
    if set(cables) != {"w", "r"}:
        return False
    got_w = cables["w"].data.get("VERILOG.InlineConstraints", {})
    got_r = cables["r"].data.get("VERILOG.InlineConstraints", {})
    return dict(got_w) == want and list(got_w) == list(want) and dict(got_r) == {}


h_attribute_groups_reach_the_item_they_precede.encodes = [VerilogParser.parse_module_body, VerilogParser.parse_star_property,
                                                          VerilogParser.parse_cable_declaration]
h_attribute_groups_reach_the_item_they_precede.bounds = {
    "groups": "up to 3 attribute groups in front of one wire declaration; 3 keys (%s), each absent or in any group, bare or "
              "with a value" % KEYS, "values": "any string over 'a1_' up to length 2"}
