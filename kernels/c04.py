"""E2 harnesses for C04: (* *) attribute lists survive write-then-read.

Driven at the unit: the real reader (TokenFactory fed character by character exactly as
VerilogTokenizer.generate_tokens does, then VerilogParser.parse_star_property) reads an attribute
list rendered by a three-line independent writer; the real Composer._write_star_constraints writes
what was read; the real reader reads that text again.  Stream I/O (io.StringIO / file objects) is
replaced by a list that records the written pieces and by the direct character feed."""
import os
import re
from spydrnet.parsers.verilog.parser import VerilogParser
from spydrnet.parsers.verilog.tokenizer import VerilogTokenizerSimple
from spydrnet.parsers.verilog.verilog_token_factory import TokenFactory
from spydrnet.composers.verilog.composer import Composer
import spydrnet.parsers.verilog.verilog_tokens as vt

QUICK = os.environ.get("VF_TIER", "quick") != "thorough"
L = int(os.environ.get("VF_L", "0")) or 2
RX = re.compile("[a1_]{1,%d}" % L)
KEYS = ["LOC", "DONT_TOUCH", "k_1"]
# values the reader can produce: concatenations of tokens (strings keep their blanks)
KFIX = int(os.environ.get("VF_K", "-1"))      # structure code m0 + 3*m1 + 9*m2 fixed by the job (cube split)
VALUES = ['"SLICE_X0Y0"', "1", '"a b"', "1'b0", '"x, y"', "TRUE"]


class _Sink:
    def __init__(self):
        self.parts = []

    def write(self, s):
        self.parts.append(s)


def _tokens(text):
    """VerilogTokenizer.generate_tokens without the stream: the real TokenFactory, one character at a time"""
    tf = TokenFactory()
    out = []
    for ch in text:
        r = tf.add_character(ch)
        if r is not None:
            out.append(r)
    r = tf.flush()
    if r is not None:
        out.append(r)
    return out


def _read(text):
    p = VerilogParser()
    p.tokenizer = VerilogTokenizerSimple(_tokens(text))
    d = p.parse_star_property()
    rest = []
    while p.tokenizer.has_next():
        rest.append(p.tokenizer.next())
    return d, rest


def _write(d):
    c = Composer.__new__(Composer)
    c.file = _Sink()
    c.skip_constraints = False
    c._write_star_constraints({"VERILOG.InlineConstraints": d})
    return "".join(c.file.parts)


def _entry(key, mode, tv, v):
    # mode 0: absent, 1: key only, 2: key = value (tv < 6: table value, tv == 6: the symbolic identifier-like v)
    if mode == 0:
        return None
    if mode == 1:
        return key
    return key + " = " + (VALUES[tv] if tv < 6 else v)


def h_attribute_list_roundtrip(m0: int, m1: int, m2: int, tv: int, v: str) -> bool:
    """
    pre: 0 <= m0 <= 2 and 0 <= m1 <= 2 and 0 <= m2 <= 2 and m0 + m1 + m2 > 0
    pre: KFIX < 0 or m0 + 3 * m1 + 9 * m2 == KFIX
    pre: 0 <= tv <= 6
    pre: RX.fullmatch(v)
    pre: True  # EXCLUSIONS
    post: _ == True
    """
    # independent writer: entries in the given order, separated by ", "
    ents = [e for e in (_entry(KEYS[0], m0, tv, v), _entry(KEYS[1], m1, tv, v), _entry(KEYS[2], m2, tv, v))
            if e is not None]
    src = "(* " + ", ".join(ents) + " *)\n"
    d1, rest1 = _read(src)
    text = _write(d1)
    d2, rest2 = _read(text)            # "the text written is always accepted by the reader"
    return d1 == d2 and list(d1) == list(d2) and rest1 == [] and rest2 == [] and len(d1) == len(ents)


h_attribute_list_roundtrip.encodes = [Composer._write_star_constraints, VerilogParser.parse_star_property,
                                      TokenFactory.add_character, TokenFactory.flush, TokenFactory.set_flags,
                                      vt.is_valid_identifier]
h_attribute_list_roundtrip.bounds = {"entries": "up to 3 keys (%s), each absent / key only / key = value" % KEYS,
                                     "values": "table %s or any string over 'a1_' up to length %d" % (VALUES, L)}


def _renderings(name, lower, width, s, w):
    """every Verilog spelling of bits s..s+w-1 (positions) of a `width`-bit net declared [lower+width-1:lower]"""
    lo, hi = lower + s, lower + s + w - 1
    out = []
    if w == 1:
        out.append(name + "[" + str(lo) + "]")
        if width == 1:
            out.append(name)
    out.append(name + "[" + str(hi) + ":" + str(lo) + "]")
    if w == width:
        out.append(name)
    return out


def h_assign_statement_names_the_connected_bits(wa: int, wb: int, la: int, lb: int, sa: int, sb: int, w: int) -> bool:
    """
    pre: 1 <= wa <= 3 and 1 <= wb <= 3
    pre: 0 <= la <= 40 and 0 <= lb <= 40
    pre: 1 <= w <= 3 and 0 <= sa and sa + w <= wa and 0 <= sb and sb + w <= wb
    pre: True  # EXCLUSIONS
    post: _ == True
    """
    # an assignment cell (library SDN_VERILOG_ASSIGNMENT, ports i and o of width w) whose o pins sit on bits
    # sa..sa+w-1 of net a (declared [la+wa-1:la]) and whose i pins sit on bits sb.. of net b: the statement the real
    # writer emits is one of the Verilog spellings of exactly those bits -- in particular with non-zero base indices
    import spydrnet as sdn
    nl = sdn.Netlist()
    work, asg = nl.create_library("work"), nl.create_library("SDN_VERILOG_ASSIGNMENT")
    cell = asg.create_definition("SDN_VERILOG_ASSIGNMENT_%d" % 1)
    pi, po = cell.create_port("i"), cell.create_port("o")
    pi.direction, po.direction = sdn.IN, sdn.OUT
    pi.create_pins(w)
    po.create_pins(w)
    top = work.create_definition("top")
    a, b = top.create_cable("a"), top.create_cable("b")
    a.create_wires(wa)
    b.create_wires(wb)
    a.lower_index, b.lower_index = la, lb
    inst = top.create_child("asg0", reference=cell)
    for k in range(w):
        a.wires[sa + k].connect_pin(inst.pins[po.pins[k]])
        b.wires[sb + k].connect_pin(inst.pins[pi.pins[k]])
    c = Composer.__new__(Composer)
    c.file = _Sink()
    try:
        c._write_assignment(inst)
    except Exception:      # a legal assignment is refused (index assertions of the writer): nothing readable is written
        return False
    text = "".join(c.file.parts)
    for left in _renderings("a", la, wa, sa, w):
        for right in _renderings("b", lb, wb, sb, w):
            if text == "assign " + left + " = " + right + ";\n":
                return True
    return False


h_assign_statement_names_the_connected_bits.encodes = [Composer._write_assignment, Composer._write_bundle_with_indicies,
                                                       Composer._write_brackets, Composer._index_of_wire_in_cable,
                                                       Composer._all_wires_and_cables_from_pinset,
                                                       Composer._is_pinset_concatenated]
h_assign_statement_names_the_connected_bits.bounds = {
    "nets": "two nets of width 1..3, base index 0..40 each (symbolic)", "assignment": "width 1..3, any contiguous aligned slice"}
