"""E2 harnesses for C04: (* *) attribute lists survive write-then-read.

Driven at the unit: the real reader (TokenFactory fed character by character exactly as
VerilogTokenizer.generate_tokens does, then VerilogParser.parse_star_property) reads an attribute
list rendered by a three-line independent writer; the real Composer._write_star_constraints writes
what was read; the real reader reads that text again.  Stream I/O (io.StringIO / file objects) is
replaced by a list that records the written pieces and by the direct character feed."""
import os
import re
from spydrnet.parsers.verilog.parser import VerilogParser
from spydrnet.parsers.verilog.tokenizer import VerilogTokenizerSimple
from spydrnet.parsers.verilog.verilog_token_factory import TokenFactory
from spydrnet.composers.verilog.composer import Composer
import spydrnet.parsers.verilog.verilog_tokens as vt

QUICK = os.environ.get("VF_TIER", "quick") != "thorough"
L = int(os.environ.get("VF_L", "0")) or 2
RX = re.compile("[a1_]{1,%d}" % L)
KEYS = ["LOC", "DONT_TOUCH", "k_1"]
# values the reader can produce: concatenations of tokens (strings keep their blanks)
KFIX = int(os.environ.get("VF_K", "-1"))      # structure code m0 + 3*m1 + 9*m2 fixed by the job (cube split)
VALUES = ['"SLICE_X0Y0"', "1", '"a b"', "1'b0", '"x, y"', "TRUE"]


class _Sink:
    def __init__(self):
        self.parts = []

    def write(self, s):
        self.parts.append(s)


def _tokens(text):
    """VerilogTokenizer.generate_tokens without the stream: the real TokenFactory, one character at a time"""
    tf = TokenFactory()
    out = []
    for ch in text:
        r = tf.add_character(ch)
        if r is not None:
            out.append(r)
    r = tf.flush()
    if r is not None:
        out.append(r)
    return out


def _read(text):
    p = VerilogParser()
    p.tokenizer = VerilogTokenizerSimple(_tokens(text))
    d = p.parse_star_property()
    rest = []
    while p.tokenizer.has_next():
        rest.append(p.tokenizer.next())
    return d, rest


def _write(d):
    c = Composer.__new__(Composer)
    c.file = _Sink()
    c.skip_constraints = False
    c._write_star_constraints({"VERILOG.InlineConstraints": d})
    return "".join(c.file.parts)


def _entry(key, mode, tv, v):
    # mode 0: absent, 1: key only, 2: key = value (tv < 6: table value, tv == 6: the symbolic identifier-like v)
    if mode == 0:
        return None
    if mode == 1:
        return key
    return key + " = " + (VALUES[tv] if tv < 6 else v)


def h_attribute_list_roundtrip(m0: int, m1: int, m2: int, tv: int, v: str) -> bool:
    """
    pre: 0 <= m0 <= 2 and 0 <= m1 <= 2 and 0 <= m2 <= 2 and m0 + m1 + m2 > 0
    pre: KFIX < 0 or m0 + 3 * m1 + 9 * m2 == KFIX
    pre: 0 <= tv <= 6
    pre: RX.fullmatch(v)
    pre: True  # EXCLUSIONS
    post: _ == True
    """
    # independent writer: entries in the given order, separated by ", "
    ents = [e for e in (_entry(KEYS[0], m0, tv, v), _entry(KEYS[1], m1, tv, v), _entry(KEYS[2], m2, tv, v))
            if e is not None]
    src = "(* " + ", ".join(ents) + " *)\n"
    d1, rest1 = _read(src)
    text = _write(d1)
    d2, rest2 = _read(text)            # "the text written is always accepted by the reader"
    return d1 == d2 and list(d1) == list(d2) and rest1 == [] and rest2 == [] and len(d1) == len(ents)


h_attribute_list_roundtrip.encodes = [Composer._write_star_constraints, VerilogParser.parse_star_property,
                                      TokenFactory.add_character, TokenFactory.flush, TokenFactory.set_flags,
                                      vt.is_valid_identifier]
h_attribute_list_roundtrip.bounds = {"entries": "up to 3 keys (%s), each absent / key only / key = value" % KEYS,
                                     "values": "table %s or any string over 'a1_' up to length %d" % (VALUES, L)}
