"""E2 harnesses for C03/C05: EDIF bit-net naming round trip and the tokenizer."""
import io
import os
import re
from spydrnet.parsers.edif.parser import EdifParser
from spydrnet.parsers.edif.tokenizer import EdifTokenizer
from spydrnet.plugins.namespace_manager.edif_namespace import EdifNamespace

QUICK = os.environ.get("VF_TIER", "quick") != "thorough"
L = int(os.environ.get("VF_L", "0")) or (3 if QUICK else 4)
RXN = re.compile("[aB9_\\[\\] ]{1,%d}" % L)          # original names (no backslash escapes)
RXI = re.compile("(&[aB9_]{1,%d}|[aB][aB9_]{0,%d})" % (L - 1, L - 1))   # legal EDIF identifiers
P = EdifParser()


def h_bit_name_round_trip(name: str, i: int) -> bool:
    """
    pre: RXN.fullmatch(name)
    pre: 0 <= i <= 120
    pre: True  # EXCLUSIONS
    post: _ == True
    """
    # what ComposeEdif._output_name_of_cable_wire_ writes as the original name of bit i
    written = name + "[" + str(i) + "]"
    return P.separate_name_and_index(written, "[") == (i, name)


def h_bit_identifier_round_trip(ident: str, i: int) -> bool:
    """
    pre: RXI.fullmatch(ident)
    pre: 0 <= i <= 120
    pre: True  # EXCLUSIONS
    post: _ == True
    """
    # what the composer writes as the identifier of bit i of a bus whose identifier is `ident`
    written = ident + "_" + str(i) + "_"
    return P.separate_name_and_index(written, "_") == (i, ident)


def h_scalar_name_not_taken_for_a_bit(name: str) -> bool:
    """
    pre: RXN.fullmatch(name)
    pre: True  # EXCLUSIONS
    post: _ == True
    """
    # a name that does not end in [digits] is never split
    idx, short = P.separate_name_and_index(name, "[")
    looks_indexed = re.fullmatch(r".*\[[0-9]+\]", name) is not None
    if not looks_indexed:
        return idx is None and short == name
    return True


class _Stream(io.TextIOBase):
    """python-level text stream (no C boundary) feeding the tokenizer"""

    def __init__(self, s):
        self.s = s
        self.done = False

    def read(self, n=-1):
        if self.done:
            return ""
        self.done = True
        return self.s

    def close(self):
        pass


RXT = re.compile("[() a1\n\"]{0,%d}" % (L + 1))


def _tokens(s):
    t = EdifTokenizer.from_stream(_Stream(s))
    out = []
    for tok in t.generator:
        out.append(tok)
        if len(out) > 3 * len(s) + 3:
            return None          # would not terminate / emits more than it reads
    return out


def h_tokenizer_terminates_and_loses_nothing(s: str) -> bool:
    """
    pre: RXT.fullmatch(s)
    pre: s.count('"') % 2 == 0
    pre: True  # EXCLUSIONS
    post: _ == True
    """
    toks = _tokens(s)
    if toks is None:
        return False
    # outside quoted strings nothing but white space disappears; inside, only line breaks do
    want = []
    inq = False
    for ch in s:
        if inq:
            if ch != "\n":
                want.append(ch)
            if ch == '"':
                inq = False
        elif ch == '"':
            inq = True
            want.append(ch)
        elif ch not in " \n":
            want.append(ch)
    return "".join(toks) == "".join(want) and all(t != "" for t in toks)


def h_parentheses_are_separate_tokens(s: str) -> bool:
    """
    pre: RXT.fullmatch(s)
    pre: '"' not in s
    pre: True  # EXCLUSIONS
    post: _ == True
    """
    toks = _tokens(s)
    if toks is None:
        return False
    return all(t in ("(", ")") or ("(" not in t and ")" not in t and " " not in t) for t in toks) \
        and sum(t == "(" for t in toks) == s.count("(")


for _f in (h_bit_name_round_trip, h_bit_identifier_round_trip, h_scalar_name_not_taken_for_a_bit):
    _f.encodes = [EdifParser.separate_name_and_index]
    _f.bounds = {"max_len": L, "name_alphabet": "aB9_[] ", "identifier_grammar": RXI.pattern,
                 "index": "0..120"}
for _f in (h_tokenizer_terminates_and_loses_nothing, h_parentheses_are_separate_tokens):
    _f.encodes = [EdifTokenizer.generate_tokens]
    _f.bounds = {"max_buffer_len": L + 1, "alphabet": "() a1\n\""}
