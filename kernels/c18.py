"""E2 harnesses for C18: EBLIF formal/actual naming (name, name[i]) read back by the parser."""
import os
import re
from spydrnet.parsers.eblif.eblif_parser import EBLIFParser
from spydrnet.composers.eblif.eblif_composer import EBLIFComposer

QUICK = os.environ.get("VF_TIER", "quick") != "thorough"
L = int(os.environ.get("VF_L", "0")) or (3 if QUICK else 4)
RXN = re.compile("[aB9_\\[\\]:]{1,%d}" % L)
P = EBLIFParser.__new__(EBLIFParser)


def h_indexed_name_round_trip(name: str, i: int) -> bool:
    """
    pre: RXN.fullmatch(name)
    pre: 0 <= i <= 120
    pre: True  # EXCLUSIONS
    post: _ == True
    """
    # what the composer writes for bit i of a multi-bit port/cable (port.name + "[" + str(i) + "]")
    return P.get_port_name_and_index(name + "[" + str(i) + "]") == (name, i)


def h_scalar_name_is_index_zero(name: str) -> bool:
    """
    pre: RXN.fullmatch(name)
    pre: not name.endswith("]")
    pre: True  # EXCLUSIONS
    post: _ == True
    """
    # single-wire cables are written without an index and read back as bit 0 of that name
    return P.get_port_name_and_index(name) == (name, 0)


def h_never_crashes_on_bracket_text(s: str) -> bool:
    """
    pre: RXN.fullmatch(s)
    pre: True  # EXCLUSIONS
    post: _ == True
    """
    # any token is either split into (name, int) or rejected with ValueError -- no other exception
    try:
        n, i = P.get_port_name_and_index(s)
    except ValueError:
        return True
    return isinstance(n, str) and isinstance(i, int)


for _f in (h_indexed_name_round_trip, h_scalar_name_is_index_zero, h_never_crashes_on_bracket_text):
    _f.encodes = [EBLIFParser.get_port_name_and_index, EBLIFComposer.find_connected_wire_info]
    _f.bounds = {"max_len": L, "alphabet": "aB9_[]:", "index": "0..120"}
