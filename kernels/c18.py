"""E2 harnesses for C18: EBLIF formal/actual naming (name, name[i]) read back by the parser."""
import os
import re
from spydrnet.parsers.eblif.eblif_parser import EBLIFParser
from spydrnet.composers.eblif.eblif_composer import EBLIFComposer

QUICK = os.environ.get("VF_TIER", "quick") != "thorough"
L = int(os.environ.get("VF_L", "0")) or (3 if QUICK else 4)
RXN = re.compile("[aB9_\\[\\]:]{1,%d}" % L)
P = EBLIFParser.__new__(EBLIFParser)


def h_indexed_name_round_trip(name: str, i: int) -> bool:
    """
    pre: RXN.fullmatch(name)
    pre: 0 <= i <= 120
    pre: True  # EXCLUSIONS
    post: _ == True
    """
    # what the composer writes for bit i of a multi-bit port/cable (port.name + "[" + str(i) + "]")
    return P.get_port_name_and_index(name + "[" + str(i) + "]") == (name, i)


def h_scalar_name_is_index_zero(name: str) -> bool:
    """
    pre: RXN.fullmatch(name)
    pre: not name.endswith("]")
    pre: True  # EXCLUSIONS
    post: _ == True
    """
    # single-wire cables are written without an index and read back as bit 0 of that name
    return P.get_port_name_and_index(name) == (name, 0)


def h_never_crashes_on_bracket_text(s: str) -> bool:
    """
    pre: RXN.fullmatch(s)
    pre: True  # EXCLUSIONS
    post: _ == True
    """
    # any token is either split into (name, int) or rejected with ValueError -- no other exception
    try:
        n, i = P.get_port_name_and_index(s)
    except ValueError:
        return True
    return isinstance(n, str) and isinstance(i, int)


for _f in (h_indexed_name_round_trip, h_scalar_name_is_index_zero, h_never_crashes_on_bracket_text):
    _f.encodes = [EBLIFParser.get_port_name_and_index, EBLIFComposer.find_connected_wire_info]
    _f.bounds = {"max_len": L, "alphabet": "aB9_[]:", "index": "0..120"}


class _Sink:
    def __init__(self):
        self.parts = []

    def write(self, s):
        self.parts.append(s)


def _read_back(text):
    """reference reader of the per-instance lines of the EBLIF format: '.attr K V', '.param K V', '.cname N'"""
    attr, param, cname = {}, {}, []
    for line in text.split("\n"):
        tk = line.split(" ")
        if tk[0] == ".attr" and len(tk) == 3:
            attr[tk[1]] = tk[2]
        elif tk[0] == ".param" and len(tk) == 3:
            param[tk[1]] = tk[2]
        elif tk[0] == ".cname" and len(tk) == 2:
            cname.append(tk[1])
        elif line != "":
            return None
    return attr, param, cname


RXV = re.compile("[aB9_\\[\\]:\"]{1,%d}" % (2 if QUICK else 3))


def h_instance_attr_param_cname_lines_all_written(has_attr: bool, has_param: bool, n_attr: int, n_param: int,
                                                  write_cname: bool, v1: str, v2: str) -> bool:
    """
    pre: 0 <= n_attr <= 2 and 0 <= n_param <= 2
    pre: RXV.fullmatch(v1) and RXV.fullmatch(v2)
    pre: True  # EXCLUSIONS
    post: _ == True
    """
    # what the reader stored for '.attr' / '.param' / '.cname' lines of an instance (dict-valued data, any mix of the
    # three, zero to two entries each) is written back line by line: a reference reader of the format recovers exactly
    # the same dictionaries and the name
    import spydrnet as sdn
    inst = sdn.Instance()
    inst.name = "i0"
    attr = dict(list({"A1": v1, "A2": v2}.items())[:n_attr])
    param = dict(list({"P1": v2, "P2": v1}.items())[:n_param])
    if has_attr:
        inst["EBLIF.attr"] = attr
    if has_param:
        inst["EBLIF.param"] = param
    c = EBLIFComposer.__new__(EBLIFComposer)
    c.write_cname = write_cname
    c.open_file = _Sink()
    c.find_and_write_additional_instance_info(inst)
    got = _read_back("".join(c.open_file.parts))
    if got is None:
        return False
    return got == (attr if has_attr else {}, param if has_param else {}, ["i0"] if write_cname else [])


h_instance_attr_param_cname_lines_all_written.encodes = [EBLIFComposer.find_and_write_additional_instance_info,
                                                         EBLIFComposer.write_out]
h_instance_attr_param_cname_lines_all_written.bounds = {
    "entries": "0..2 attributes and 0..2 parameters (concrete keys A1,A2,P1,P2), each table present or absent",
    "values": "symbolic strings over 'aB9_[]:\"' up to length %d" % (2 if QUICK else 3), "cname": "on or off"}
