"""E2 harnesses for C05: (property ...) constructs of one element are read independently of each other.

Driven at the unit: the real EdifParser.parse_property (parse_property_like_element, parse_nameDef, parse_rename,
parse_typedValue, append_attribute) reads, through the real EdifTokenizer, a property list rendered by an independent
writer from a symbolic structure; the element is a real Instance pushed with append_new_element."""
import os
import re
import sys
import vf
sys.path.insert(0, os.path.join(os.path.dirname(os.path.dirname(os.path.abspath(vf.__file__))), "kernels"))
from c03 import _Stream
from spydrnet.parsers.edif.parser import EdifParser
from spydrnet.parsers.edif.tokenizer import EdifTokenizer

KFIX = int(os.environ.get("VF_K", "-1"))      # structure code r0 + 3*r1 + 9*r2 fixed by the job (cube split)
RXP = re.compile("[a1_]{1,2}")
IDS = ["P0", "Q1", "R2"]
ORIG = ["o[0]", "q 1", "r-2"]


def _read_props(text):
    import spydrnet as sdn
    p = EdifParser()
    p.tokenizer = EdifTokenizer.from_stream(_Stream(text))
    inst = sdn.Instance()
    p.append_new_element(inst)
    while p.begin_construct():
        p.parse_property()
        p.expect_end_construct()
    return inst.data.get("EDIF.properties", [])


def h_properties_keep_their_own_names(r0: int, r1: int, r2: int, v: str) -> bool:
    """
    pre: 0 <= r0 <= 2 and 0 <= r1 <= 2 and 0 <= r2 <= 2
    pre: KFIX < 0 or r0 + 3 * r1 + 9 * r2 == KFIX
    pre: RXP.fullmatch(v)
    pre: True  # EXCLUSIONS
    post: _ == True
    """
    # property i is absent (0), plain '(property Pi (string "v"))' (1) or renamed '(property (rename Pi "orig") ...)' (2);
    # every property read carries its own identifier, its own original name iff it was renamed, and its value
    text, want = "", []
    for i, r in enumerate((r0, r1, r2)):
        if r == 1:
            text += "(property " + IDS[i] + " (string \"" + v + "\"))\n"
            want.append({"identifier": IDS[i], "value": v})
        elif r == 2:
            text += "(property (rename " + IDS[i] + " \"" + ORIG[i] + "\") (string \"" + v + "\"))\n"
            want.append({"identifier": IDS[i], "original_identifier": ORIG[i], "value": v})
    text += ")"
    try:
        got = _read_props(text)
    except Exception:
        return False
    return [dict(g) for g in got] == want


h_properties_keep_their_own_names.encodes = [EdifParser.parse_property, EdifParser.parse_property_like_element,
                                             EdifParser.parse_nameDef, EdifParser.parse_rename,
                                             EdifParser.parse_typedValue, EdifParser.append_attribute]
h_properties_keep_their_own_names.bounds = {
    "properties": "up to 3 string properties on one instance, each absent / plain / renamed, in every order of the kinds",
    "values": "any string over 'a1_' up to length 2"}
