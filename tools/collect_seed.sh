#!/bin/sh
# tools/collect_seed.sh <ID> [<seed-name>] : confirm a sub-agent's seeded change in its scratch worktree and keep it.
# Confirms: tests identical to baseline with the change; demo fails with / passes without.
ID=$1; NAME=${2:-$1}; WT=/tmp/wt/$ID
cd $WT || exit 2
[ -s patch_$ID.diff ] || git diff -- spydrnet > patch_$ID.diff
git checkout -q -- spydrnet
PYTHONPATH=$WT /venv/bin/python demo_$ID.py > /tmp/seed_$ID.without 2>&1; RC0=$?
git apply patch_$ID.diff || { echo "patch does not apply"; exit 2; }
PYTHONPATH=$WT /venv/bin/python demo_$ID.py > /tmp/seed_$ID.with 2>&1; RC1=$?
T=$(PYTHONPATH=$WT /venv/bin/python -m pytest -q -p no:cacheprovider --timeout=900 2>&1 | tail -1)
echo "$ID: demo without=$RC0 with=$RC1 tests: $T"
case "$T" in *"4 failed, 580 passed, 7 skipped, 32 xfailed"*) ;; *) echo "TESTS DIFFER"; exit 1;; esac
[ $RC0 = 0 ] && [ $RC1 = 1 ] || { echo "DEMO NOT DISCRIMINATING"; exit 1; }
D=/verif/seeded/$NAME; mkdir -p $D
cp patch_$ID.diff $D/patch.diff; cp demo_$ID.py $D/demo.py
printf '{\n "property": "%s",\n "tests_with_change": "%s",\n "demo_without_change": "exit 0: %s",\n "demo_with_change": "exit 1: %s",\n "confirmed_by": "tools/collect_seed.sh (applied in scratch worktree %s: pytest summary identical to baseline, demo exit 0 without / exit 1 with)"\n}\n' "$ID" "$T" "$(tail -1 /tmp/seed_$ID.without | cut -c1-200 | tr -d '"\\')" "$(tail -1 /tmp/seed_$ID.with | cut -c1-300 | tr -d '"\\')" "$WT" > $D/meta.json
echo kept $D
