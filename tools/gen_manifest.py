#!/usr/bin/env python3
"""Regenerate MANIFEST.json from the table below (single source of truth for the interface)."""
import json, os
HERE = os.path.dirname(os.path.dirname(os.path.abspath(__file__)))
ALL = ["C%02d" % i for i in range(1, 21)]

CLAIMED = {
 "C13": dict(
   engine="E2",
   technique="symbolic execution of the real matcher under CrossHair/z3, symbolic value strings against a pattern table with hand-written languages",
   text="Bounded solver verdict on the real `_value_matches_pattern`/`_is_pattern_absolute`: for every value string within the length bound and every pattern of the table the match result equals an independent language predicate (exact, shell wildcards, regular expressions, case folding, None values, no query-history dependence). Counterexamples are replayed natively before being reported.",
   note="Trusted: CrossHair's str/regex models and z3; bounds per obligation in evidence. Outside: patterns not in the table, '[..]' classes, the get_* traversal code around the matcher (pending E1).",
   design_ref="§4 C13"),
}

_E1 = "bounded symbolic execution of the real Python source (AST interpreter over a symbolic heap) + z3: one inductive step per public mutator from an arbitrary invariant-satisfying state"
CLAIMED.update({
 "C01": dict(engine="E1", technique=_E1,
   text="Inductive, bounded: for every public IR mutator, executed symbolically from ANY pre-state satisfying the representation invariant (ownership lists<->back pointers, pin<->wire links, instance mirror) with ANY arguments (foreign elements, None, proxy outer pins, arbitrary positions, bulk lists/sets with duplicates), z3 shows ownership and pin-wire consistency hold again whether the call returned or raised, and that reorder setters permute. By induction this covers every edit history that fits the universe. Counterexamples are rebuilt through the public API and replayed on the real classes before being reported.",
   note="Trusted: z3, the AST interpreter (differentially validated against the real classes on random concrete steps in every run), the replay oracle. Bounds (slots per class, list capacity, bulk length) per obligation in evidence; set/dict iteration order modelled as slot order; no listeners registered.",
   design_ref="§4 C01, §2"),
 "C02": dict(engine="E1", technique=_E1,
   text="Same inductive step as C01, asserting the instance mirror: reference sets agree with Instance.reference and every instance holds exactly one outer pin per inner pin of its definition, each naming that instance and inner pin, after every mutator from any invariant state.",
   note="As C01. The functional clauses (disconnect-first, re-point keeps connections) are covered through I2/I3 preservation plus the C19 mirror; stated in DESIGN.",
   design_ref="§4 C02"),
 "C14": dict(engine="E1", technique=_E1,
   text="For every public mutator from any invariant state and any arguments: on every path on which the call raises, all fields of all pre-existing objects (ordered lists, reference sets, pin maps, data, flags) equal their pre-call values and mention no object allocated during the call.",
   note="As C01. Refusals by the naming plugin are covered by the C10 obligations, not here.",
   design_ref="§4 C14"),
 "C19": dict(engine="E1", technique=_E1 + "; event list folded by an independent reference mirror",
   text="For every public mutator from any invariant state with a recording listener on all events: the mirror obtained by replaying the announcements on the pre-state equals the real post-state (containment, connections, references, top instance, data); announcements precede the change; a call that raises announced nothing structural.",
   note="As C01. Outer-pin re-keying on Instance.reference re-pointing is not announced and is excluded; disconnect announcements may repeat.",
   design_ref="§4 C19"),
})

_E2 = "symbolic execution of the real leaf functions under CrossHair/z3 (all paths inside the stated string/integer bounds); counterexamples replayed natively"
CLAIMED.update({
 "C03": dict(engine="E2", technique=_E2,
   text="Kernel-level, bounded: the bit-net naming the EDIF writer emits (name[i], id_i_) is split back into (i, name) by the reader's real separate_name_and_index for every name/identifier within the bound and i in 0..120; scalar names are never mistaken for bus bits; the real tokenizer is loss-free. The whole-file round trip is NOT claimed: the printing/recursive-descent glue is outside (DESIGN section 6).",
   note="Trusted: CrossHair str/int/regex models, z3. Known finding F-C03-ampersand-underscore-bus is reported and excluded, the rest re-queried.", design_ref="§4 C03"),
 "C05": dict(engine="E2", technique=_E2,
   text="Kernel-level, bounded: the reader's naming and tokenizing kernels (shared with C03). Resolution of portRef/instanceRef/cellRef and bus re-assembly (E1) are planned obligations and not yet part of the claim.",
   note="As C03.", design_ref="§4 C05"),
 "C15": dict(engine="E1+E2", technique="bounded symbolic execution of the real parse() entry points with nondeterministic construct-parser stubs (z3) + CrossHair on the tokenizer",
   text="For each reader's parse(): with the construct parser replaced by a stub that may return or raise anything, and a symbolic policy before the call, z3 shows namespace_manager.default is restored on every exit (this quantifies over every failure point of every input at once). Plus tokenizer termination/loss-freeness within the buffer bound.",
   note="Stub side condition checked on the AST: no other function of the parser module assigns the policy. 'Never a half-built structure' for whole files is outside.", design_ref="§4 C15"),
 "C17": dict(engine="E2", technique=_E2,
   text="Bounded: on the real EdififyNames/_add_rename_property, for every single name within the bound the identifier is accepted by the reader's own legality rule; for sibling pairs (first from an adversarial table, second any string within the bound, both orders, with and without a pre-existing identifier) identifiers are legal, differ ignoring case, and the rename flag is set iff the identifier differs from the name; names around 250-262 characters stay legal except the recorded known finding.",
   note="Trusted: CrossHair, z3. Outside: non-ASCII letters, more than two siblings, longer free names.", design_ref="§4 C17"),
 "C18": dict(engine="E2", technique=_E2,
   text="Kernel-level, bounded: EBLIF formal/actual naming (name, name[i]) as printed by the composer is read back to (name, i) by the real get_port_name_and_index for all names within the bound; malformed bracket text raises only ValueError. Instance/net construction (E1) not yet part of the claim.",
   note="As C03.", design_ref="§4 C18"),
})

CLAIMED.update({
 "C10": dict(engine="E1", technique=_E1 + "; the real NamespaceManager/DefaultNamespace/EdifNamespace interpreted as registered listeners",
   text="Inductive, bounded: for every public mutator from ANY state satisfying Inv and I4 (the plug-in's tables hold exactly the current children per scope and key; identifiers legal; tags uniform), under the DEFAULT and the EDIF policy, names over a colliding alphabet, z3 shows I4 holds again whether the call returned or was refused. Table exactness gives sibling uniqueness, no refusal because of removed/renamed elements, and lookup == scan.",
   note="Only the manager's nested dictionaries are modelled (heap-resident tables); its code is the real source. Outside: mixed-policy states, .NS changes, clones (C07), weak-reference reclamation.", design_ref="§4 C10"),
 "C07": dict(engine="E1", technique=_E1.replace("one inductive step per public mutator", "clone() of every root class") + "; copy correspondence checked as an existential witness",
   text="Bounded: clone() of every class of root executed symbolically from an arbitrary invariant state; z3 shows the copy corresponds position-wise to exactly the elements inside the root (structure, attributes, data, connections, outer pins), consists of new objects of the public classes, is detached, leaves the source unchanged up to the documented reference-set bookkeeping, shares nothing with the original for whole-netlist clones, and the whole heap is well-formed afterwards.",
   note="Library/Netlist roots: containment shape concrete per listed shape (cube split), links symbolic. List aliasing between heap fields is modelled. Outside: non-atom user data, unlisted shapes.", design_ref="§4 C07"),
})

CLAIMED.update({
 "C20": dict(engine="E1", technique="bounded symbolic execution of the real Comparer and query functions over two netlists in one symbolic heap (containment shape concrete, links/names/attributes symbolic) + z3",
   text="Bounded: with B constrained position-wise identical to A, z3 shows Comparer.compare cannot raise; with exactly one planted difference of each documented kind (port direction, name, instance reference incl. same-named cells in two libraries, a net touching another pin/bit, port width, cable width, instance count) it shows an exception is always raised. Counterexamples are rebuilt through the public API and the real Comparer is run on them.",
   note="Preconditions: self-contained, named, sibling-unique, nets local to their definition. Outside: property values, unnamed elements, larger shapes.", design_ref="§4 C20"),
})

CLAIMED.update({
 "C12": dict(engine="E1", technique="bounded symbolic execution of the real get_hwires tracing code on hierarchy-concrete fixtures with symbolic connections + z3; expected net = bounded transitive closure stated from the pin->wire fields",
   text="Bounded: for each listed design (hierarchy fixed) and every hierarchical wire as starting point, z3 shows over ALL well-formed connection patterns that _get_hwires(start, ALL) returns exactly the connected component of the start, once each, without raising - so every member of a net gives the same answer. Counterexamples are rebuilt through the public API and compared with a plain union-find elaboration.",
   note="Hierarchy (containment, references, top instance) is cube-split over two fixtures; hierarchical references are atoms over the path table. Outside: deeper/wider designs, INSIDE/OUTSIDE/BOTH selections, get_hpins/get_hcables/get_hports variants.", design_ref="§4 C12"),
})

CLAIMED.update({
 "C11": dict(engine="E1", technique="bounded symbolic execution of the real HRef.get_all_hrefs_of_instances on hierarchy-concrete fixtures with a symbolic set of wanted instances + z3",
   text="Bounded, partial: for each listed design and for ALL subsets of its instances at once (symbolic membership), z3 shows the references returned are exactly the instance paths of the elaborated design ending in a wanted instance, once each, nothing else, no exception. This is the 'no omission / no duplicate' core of the property; canonical identity (flyweight, hash), is_valid/is_unique after edits and the get_h* name filters are not claimed.",
   note="Hierarchy cube-split over the fixtures; hierarchical references as atoms over the path table.", design_ref="§4 C11"),
})

_LEM = "bounded symbolic execution of the real transformation kernels as single steps from arbitrary well-formed states + z3 (step lemmas)"
CLAIMED.update({
 "C08": dict(engine="E1", technique=_LEM,
   text="Lemma level, bounded: _is_unique agrees with its declarative reading on every state of the universe; _make_instance_unique as one step gives the instance a private fresh copy with exact reference-set bookkeeping and unchanged connections. The whole uniquify run (driver loop, elaborated-design equality, idempotence) is NOT decided; stated in DESIGN section 9.",
   note="Shape-concrete library for the step; links symbolic. Trusted as elsewhere.", design_ref="§4 C08, §9"),
 "C09": dict(engine="E1", technique=_LEM,
   text="Lemma level, bounded: the connection-merging kernel _redo_connections, from an arbitrary well-formed net-local state with symbolic connections, merges the inner net of a port pin into the outer net including pins of other ports on the same inner net (feed-through), handles unconnected sides, and keeps the netlist well-formed. The whole flatten run is NOT decided (attempted; z3 did not terminate); stated in DESIGN section 9.",
   note="One-pin ports; shape-concrete cell.", design_ref="§4 C09, §9"),
})

CLAIMED.update({
 "C04": dict(engine="E1", technique=_LEM,
   text="Lemma level, bounded: the writer's concatenation/part-select emission kernel denotes exactly the given wires in order under the reader's range semantics, for all lists within the bound. The whole-file round trip is not decided.",
   note="Recorder stub for the file; replay through real compose+parse.", design_ref="§4 C04, §9"),
 "C06": dict(engine="E1", technique=_LEM,
   text="Lemma level, bounded: the reader's range selection returns the selected bits MSB-first for all bounds within the cable; a constant literal is always joined to the constant net of the module being connected. Everything else about the Verilog reader is not decided.",
   note="Tokenizer stubbed for the constant lemma; replay on a real three-module file.", design_ref="§4 C06, §9"),
})

CLAIMED.update({
 "C16": dict(engine="E1", technique="bounded symbolic execution of the real writer (AST interpreter over a symbolic heap, output text kept as ropes) run twice on a hierarchy-concrete fixture with symbolic connections and options + z3: frame of the whole netlist and structural equality of the two write sequences",
   text="Fixture level, bounded: each of the three real writers (EBLIFComposer.run, verilog Composer.run, ComposeEdif.run; objects built by the real __init__) is executed twice on a three-definition, two-library netlist whose connections and writer options are symbolic (EBLIF.type taggings enumerated as cubes). z3 shows that after each write every field and data entry of every netlist object is unchanged -- for the first EDIF write up to the documented side effects only (dependency reordering of libraries/cells, recorded identifiers) --, that the second run issues the same writes with equal text, and that nothing raises. Other hierarchy shapes, the definition_list/reverse options and the bytes reaching the file system (open/close/flush, 'complete and closed') are NOT decided.",
   note="File objects replaced by a write recorder; text compared as ropes (equal shape and leaves is sufficient for equal text). Counterexamples are replayed with the real composer on a real netlist and temp files.", design_ref="§9.6, §9.8"),
})

# claims extended in the second seeding round (DESIGN 9.7)
EXTRA_TEXT = {
 "C03": "Also decided on the writer alone (fixture eblif-bus, two symbolic connection patterns): equal written text implies equal pin->net-bit relations; one (net ...) per wire and one (portRef ...) per joined pin. Also decided: the writer's portRef emission (_output_port_ref_/_output_inner_pin_) names the position of exactly the pin that is on the net, for ports of 1 and 3 pins in every connection pattern.",
 "C04": "Also decided on the writer alone (fixture eblif-bus, two symbolic connection patterns, port bits joined inside their module): equal written text implies equal pin->net-bit relations. Also decided (CrossHair): (* *) attribute lists of up to three entries survive real reader -> real writer -> real reader.",
 "C05": "Also decided: parse_design binds the top instance to the cell with the cellRef identifier in the library with the libraryRef identifier, independent of display names.",
 "C06": "Also decided: positional (connect_implicitly_mapped_ports) and named (parse_port_map_single) port maps join bit k of a 1-2 bit expression, counted from its low end, to port bit k. Also decided: a two-piece concatenation {P1, P2} yields P1's bits MSB-first followed by P2's bits MSB-first.",
 "C08": "Also decided: the WHOLE uniquify() -- real driver, _is_unique, _make_instance_unique, Definition.clone -- on containment-concrete netlists with symbolic instance->definition references (sharing below the top, with the outside, leaves): uniqueness of reachable hierarchical instances, unchanged elaborated tree and leaf types, untouched originals/outside, fresh names in the same library, well-formedness, idempotence, no exception.",
 "C09": "Also decided: the WHOLE flatten() on pin-free hierarchies with symbolic instance->definition references (exactly the leaf occurrences remain in the top, named by their path; nets of flattened cells moved to the top; outside untouched; well-formed; no exception). Also decided: the same kernel for a two-pin port whose bits are on distinct nets (each bit merged whatever happened for the one before).",
 "C11": "Also decided: the hierarchical-wire and hierarchical-cable name maps contain exactly one entry per occurrence below the top (wire-only cells included), named by path, cable and bus index, on three fixtures with symbolic naming flags.",
 "C12": "Quick tier fixtures: shared-sub and wire-only (a cell with nets but no children one level down). Also decided on the same fixtures: get_hcables(start, ALL) returns exactly the cables of the connected net; get_hpins(hierarchical wire) returns exactly the pins attached to it; get_hwires(hierarchical pin, INSIDE/OUTSIDE) returns exactly the wire on that side.",
 "C13": "Also decided: brackets in wildcard patterns are literal; the name maps behind get_hwires/get_hcables (see C11); E1 on the flat queries get_instances/get_cables/get_ports/get_definitions from an arbitrary well-formed state: result == unfiltered result restricted to the elements whose value matches either of two symbolic patterns (independent matcher), unfiltered result == the named children, no element twice.",
 "C18": "Also decided on the writer alone (fixture eblif-bus): equal written text implies equal instance-pin->net-bit relations. Also decided: connect_pin_to_wire joins a pin to the named net of the model being read, across two consecutive models (parser built by its real __init__).",
 "C20": "Also decided on a shape with two instances of the two-pin cell (a net moved to the same pin of the other instance is rejected); the comparer is built by its real __init__.",
 "C14": "Instance.reference is additionally decided on shape-concrete universes with two ports per definition (equal, growing and shrinking second port).",
}
# follow-up round (DESIGN 9.12)
EXTRA_TEXT["C04"] += " Also decided (CrossHair/z3): Composer._write_assignment on an assignment cell of width 1-3 joined to any aligned slice of two nets of width 1-3 with symbolic base indices 0..40 writes a Verilog spelling of exactly the joined bits."
EXTRA_TEXT["C06"] += " Also decided (CrossHair/z3, one job per group structure): parse_module_body gives a wire declaration the union of up to three (* *) groups written in front of it (three keys, bare or with a symbolic value) and the following item none."
EXTRA_TEXT["C09"] += " Also decided: _bring_to_top names an instance / a cable prefix/name for every pair of symbolic name and prefix domains in which names start with, contain and repeat the prefix, moves it into the top, refreshes an EDIF identifier iff present, changes nothing else."
EXTRA_TEXT["C18"] += " Also decided (CrossHair/z3): find_and_write_additional_instance_info writes every .attr / .param / .cname line of an instance (tables present or absent, 0-2 entries, symbolic values); a reference reader recovers exactly the stored tables."
EXTRA_TEXT["C05"] += " Also decided (CrossHair/z3, one job per structure): parse_property reads up to three string properties of one instance (absent / plain / renamed, symbolic value) each with its own identifier, original name iff renamed, and value."
for _p, _t in EXTRA_TEXT.items():
    CLAIMED[_p]["text"] += " " + _t

NA_REASON = "check not built yet in this round (see DESIGN.md §7 build order); no claim is made"

def main():
    checks = []
    for pid in ALL:
        if pid not in CLAIMED:
            continue
        c = CLAIMED[pid]
        checks.append({
            "property_id": pid,
            "quick_cmd": "./check %s --tier quick" % pid,
            "thorough_cmd": "./check %s --tier thorough" % pid,
            "evidence_file": "evidence/%s.json" % pid,
            "replay_cmd_template": "./check %s --replay {path}" % pid,
            "engine": c["engine"],
            "level_claimed": {"category": "model_checking", "text": c["text"], "design_ref": c["design_ref"]},
            "level_note": c["note"],
            "technique": c["technique"],
        })
    na = [{"property_id": p, "reason": NA.get(p, NA_REASON)} for p in ALL if p not in CLAIMED]
    m = {
        "version": 1,
        "setup_cmd": "./bootstrap.sh",
        "hooks": {"guard": "BYUCCL_SPYDRNET_VERIF", "enable": "none needed: the engines read /repo's source (E1) or import the real functions (E2); no hook is compiled in",
                  "baseline_off_cmd": "cd /repo && /venv/bin/python -m pytest -ra -q -p no:cacheprovider --timeout=900 --continue-on-collection-errors",
                  "source_commits": [], "add_only": True},
        "engines": [
            {"name": "E1", "path": "vf/e1", "serves_properties": [p for p in ALL if CLAIMED.get(p, {}).get("engine", "").startswith("E1")],
             "kind_free_text": "symheap: bounded symbolic execution of the real Python AST over a symbolic heap, z3 decides"},
            {"name": "E2", "path": "vf/e2", "serves_properties": [p for p in ALL if "E2" in CLAIMED.get(p, {}).get("engine", "")],
             "kind_free_text": "strkernel: CrossHair (z3) on the real leaf string/int functions via its API"},
        ],
        "checks": checks,
        "not_applicable": na,
        "notes": "exit 0 = all explored obligations hold or are listed known findings; exit 1 + VIOLATION line = replayed counterexample; exit 2 = harness error / nothing decided.",
    }
    json.dump(m, open(os.path.join(HERE, "MANIFEST.json"), "w"), indent=1)
    print("claimed:", [c["property_id"] for c in checks], "NA:", len(na))

NA = {
 "C16_old": "solver-based checking does not reach this property: the three composers are text-building loops whose trip count and output grow with the netlist; under E1 the emitted strings become finite-domain atoms whose domains multiply at every symbolic concatenation (a run of EBLIFComposer.run on a 3-definition fixture with ONE symbolic EBLIF.type tag did not get past compose_subcircuits in 20 min), and under CrossHair a compose costs seconds per path (measured in round 0). 'Output file complete and closed' depends on CPython reference counting, which neither engine models. No weaker technique is substituted (DESIGN.md section 9.6).",
}
if __name__ == "__main__":
    main()
