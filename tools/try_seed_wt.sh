#!/bin/sh
# tools/try_seed_wt.sh <seed-dir-name> <PROP> [extra check args]: like try_seed.sh but on a scratch worktree
# of /repo (outside /repo and /verif), so several seeds can be tried at once; the worktree is removed afterwards.
S=$1; P=$2; shift 2
WT=/tmp/sw/$S.$P; mkdir -p /tmp/sw; rm -rf $WT
git -C /repo worktree add -q --detach $WT HEAD || exit 2
PATCH=/verif/seeded/$S/patch.diff; [ -f /verif/seeded/$S/patch_current.diff ] && PATCH=/verif/seeded/$S/patch_current.diff
git -C $WT apply $PATCH || { echo "patch does not apply"; git -C /repo worktree remove --force $WT; exit 2; }
cd /verif && PYTHONPATH=$WT VF_EVIDENCE_DIR=/tmp/sw/ev.$S.$P ./check $P --tier quick "$@" > /tmp/seed_${S}_${P}.log 2>&1; RC=$?
git -C /repo worktree remove --force $WT; git -C /repo worktree prune
echo "seed $S on $P: exit $RC"; grep -c "^VIOLATION" /tmp/seed_${S}_${P}.log; grep "^VIOLATION" -A1 /tmp/seed_${S}_${P}.log | head -6 | cut -c1-400; tail -1 /tmp/seed_${S}_${P}.log
