#!/bin/sh
# run every claimed thorough check sequentially (cheapest first), each under a wall-clock cap; summary lines to stdout
cd /verif
CAP=${CAP:-5400}
for p in ${PROPS:-C16 C18 C03 C05 C06 C04 C09 C08 C15 C17 C13 C11 C12 C20 C07 C19 C02 C10 C14 C01}; do
  start=$(date +%s)
  timeout $CAP ./check $p --tier thorough > /tmp/allt_$p.log 2>&1; rc=$?
  [ $rc = 124 ] && pkill -f "vf[.]worker" ; sleep 1
  mkdir -p evidence/thorough; cp evidence/$p.json evidence/thorough/$p.json 2>/dev/null
  echo "$p rc=$rc $(( $(date +%s) - start ))s $(tail -1 /tmp/allt_$p.log | cut -c1-200)"
done
