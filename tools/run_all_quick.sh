#!/bin/sh
# run every claimed quick check sequentially; summary lines to stdout
cd /verif
for p in $(python3 -c "import json;print(' '.join(c['property_id'] for c in json.load(open('MANIFEST.json'))['checks']))"); do
  ./check $p --tier quick > /tmp/allq_$p.log 2>&1; echo "$p rc=$? $(tail -1 /tmp/allq_$p.log)"
done
