#!/bin/sh
# tools/try_seed.sh <seed-dir-name> <PROP> [extra check args]: apply a seeded change to /repo, run the check, undo.
S=$1; P=$2; shift 2
cd /repo && git diff --quiet || { echo "/repo not clean"; exit 2; }
PATCH=/verif/seeded/$S/patch.diff; [ -f /verif/seeded/$S/patch_current.diff ] && PATCH=/verif/seeded/$S/patch_current.diff
git apply $PATCH || { echo "patch does not apply (rebase it as patch_current.diff)"; git checkout HEAD -- .; exit 2; }
cd /verif && ./check $P --tier quick "$@" > /tmp/seed_${S}_${P}.log 2>&1; RC=$?
cd /repo && git checkout -- . && git status --short | head -3
echo "seed $S on $P: exit $RC"; grep -c "^VIOLATION" /tmp/seed_${S}_${P}.log; grep "^VIOLATION" -A1 /tmp/seed_${S}_${P}.log | head -6 | cut -c1-400; tail -1 /tmp/seed_${S}_${P}.log
