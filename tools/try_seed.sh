#!/bin/sh
# tools/try_seed.sh <seed-dir-name> <PROP> [extra check args]: apply a seeded change to /repo, run the check, undo.
S=$1; P=$2; shift 2
cd /repo && git diff --quiet || { echo "/repo not clean"; exit 2; }
git apply /verif/seeded/$S/patch.diff || git apply -3 /verif/seeded/$S/patch.diff || { echo "patch does not apply"; git checkout -- .; exit 2; }
cd /verif && ./check $P --tier quick "$@" > /tmp/seed_$S_$P.log 2>&1; RC=$?
cd /repo && git checkout -- . && git status --short | head -3
echo "seed $S on $P: exit $RC"; grep -c "^VIOLATION" /tmp/seed_$S_$P.log; grep "^VIOLATION" -A1 /tmp/seed_$S_$P.log | head -6 | cut -c1-400; tail -1 /tmp/seed_$S_$P.log
