#!/bin/sh
# tools/try_patch_wt.sh <patch file> <PROP> [extra check args]: run a check against /repo HEAD + patch on a scratch worktree
PATCH=$1; P=$2; shift 2
N=$(basename $PATCH .diff)
WT=/tmp/sw/$N.$P; mkdir -p /tmp/sw; rm -rf $WT
git -C /repo worktree add -q --detach $WT HEAD || exit 2
git -C $WT apply $PATCH || { echo "patch does not apply"; git -C /repo worktree remove --force $WT; exit 2; }
cd /verif && PYTHONPATH=$WT ./check $P --tier quick "$@" > /tmp/patch_${N}_${P}.log 2>&1; RC=$?
git -C /repo worktree remove --force $WT; git -C /repo worktree prune
echo "patch $N on $P: exit $RC; $(grep -c '^VIOLATION' /tmp/patch_${N}_${P}.log) violations; $(tail -1 /tmp/patch_${N}_${P}.log | cut -c1-150)"
grep "^VIOLATION\|^HARNESS-ERROR\|^INCONCLUSIVE" /tmp/patch_${N}_${P}.log | head -5 | cut -c1-300
